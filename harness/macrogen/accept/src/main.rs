fn main() {}
