use serde_json::{json, Value};
use std::cell::RefCell;
use std::panic::{catch_unwind, AssertUnwindSafe};

thread_local! {
	static LAST_PANIC: RefCell<String> = const { RefCell::new(String::new()) };
}

pub fn install_panic_hook() {
	std::panic::set_hook(Box::new(|info| {
		let msg = if let Some(s) = info.payload().downcast_ref::<&str>() {
			s.to_string()
		} else if let Some(s) = info.payload().downcast_ref::<String>() {
			s.clone()
		} else {
			"panic".to_string()
		};
		let loc = info
			.location()
			.map(|l| format!(" at {}:{}", l.file(), l.line()))
			.unwrap_or_default();
		LAST_PANIC.with(|p| *p.borrow_mut() = format!("{msg}{loc}"));
	}));
}

/// Run `f`, turning a panic into `Err(message)`: a panic of the code under test is data.
pub fn guard<R>(f: impl FnOnce() -> R) -> Result<R, String> {
	match catch_unwind(AssertUnwindSafe(f)) {
		Ok(r) => Ok(r),
		Err(_) => Err(LAST_PANIC.with(|p| p.borrow().clone())),
	}
}

/// Text <- JSON array of naturals (code points).  `None` when some element is not a scalar value.
pub fn text_of(v: &Value) -> Option<String> {
	let a = v.as_array()?;
	let mut s = String::with_capacity(a.len());
	for x in a {
		s.push(char::from_u32(x.as_u64()? as u32)?);
	}
	Some(s)
}

pub fn text(v: &Value) -> String {
	text_of(v).unwrap_or_else(|| panic!("harness: not a text: {v}"))
}

/// The absent-component marker of the specification: `<<-1>>`.
pub fn is_null(v: &Value) -> bool {
	matches!(v.as_array(), Some(a) if a.len() == 1 && a[0].as_i64() == Some(-1))
}

pub fn opt_text(v: &Value) -> Option<String> {
	if is_null(v) {
		None
	} else {
		Some(text(v))
	}
}

pub fn bytes_of(v: &Value) -> Vec<u8> {
	v.as_array()
		.unwrap_or_else(|| panic!("harness: not a byte array: {v}"))
		.iter()
		.map(|x| x.as_u64().expect("byte") as u8)
		.collect()
}

/// JSON array of code points.
pub fn enc(s: &str) -> Value {
	Value::Array(s.chars().map(|c| json!(c as u32)).collect())
}

pub fn enc_opt(s: Option<&str>) -> Value {
	match s {
		Some(s) => enc(s),
		None => json!([-1]),
	}
}

pub fn enc_bytes(b: &[u8]) -> Value {
	Value::Array(b.iter().map(|c| json!(*c)).collect())
}

/// A set of admissible texts (JSON array of arrays) contains `s`.
pub fn admits(set: &Value, s: &str) -> bool {
	set.as_array()
		.map(|a| a.iter().any(|t| text_of(t).as_deref() == Some(s)))
		.unwrap_or(false)
}

pub fn show_set(set: &Value) -> Value {
	Value::Array(
		set.as_array()
			.map(|a| a.iter().map(|t| json!(text_of(t).unwrap_or_default())).collect())
			.unwrap_or_default(),
	)
}

/// Collector of failed comparisons for one case.
#[derive(Default)]
pub struct Fails {
	pub list: Vec<Value>,
	pub checks: u64,
	/// observations to be judged by TLC (trace validation)
	pub obs: Vec<Value>,
}

impl Fails {
	pub fn new() -> Self {
		Self::default()
	}

	/// Record one comparison.
	pub fn eq<T: PartialEq + serde::Serialize>(&mut self, props: &[&str], what: &str, observed: T, expected: T) {
		self.checks += 1;
		if observed != expected {
			self.list.push(json!({"props": props, "what": what, "observed": observed, "expected": expected}));
		}
	}

	pub fn ok(&mut self, props: &[&str], what: &str, cond: bool, detail: impl FnOnce() -> Value) {
		self.checks += 1;
		if !cond {
			self.list.push(json!({"props": props, "what": what, "detail": detail()}));
		}
	}

	pub fn member(&mut self, props: &[&str], what: &str, observed: &str, set: &Value) {
		self.checks += 1;
		if !admits(set, observed) {
			self.list.push(json!({"props": props, "what": what, "observed": observed, "expected_one_of": show_set(set)}));
		}
	}

	pub fn panic(&mut self, props: &[&str], what: &str, msg: &str) {
		self.checks += 1;
		self.list.push(json!({"props": props, "what": what, "panic": msg}));
	}

	/// Run `f` under a panic guard; a panic is recorded as a failure and `None` is returned.
	pub fn run<R>(&mut self, props: &[&str], what: &str, f: impl FnOnce() -> R) -> Option<R> {
		match guard(f) {
			Ok(r) => Some(r),
			Err(m) => {
				self.panic(props, what, &m);
				None
			}
		}
	}
}

pub fn ptr_off(outer: &[u8], inner: &[u8]) -> Option<usize> {
	let o = outer.as_ptr() as usize;
	let i = inner.as_ptr() as usize;
	if i >= o && i + inner.len() <= o + outer.len() {
		Some(i - o)
	} else {
		None
	}
}

/// Debug output is a route out of the text (C14): whatever decoration the type adds, the text
/// must be shown, escaped as Rust's own `Debug` for `str` escapes it.
pub fn debug_shows(debug: &str, text: &str) -> bool {
	let quoted = format!("{:?}", text);
	debug.contains(&quoted[1..quoted.len() - 1])
}

/// A `Hasher` that mixes in the BOUNDARIES of the calls it receives (as FxHash, ahash and other
/// word-at-a-time hashers do): `write(&[a, b])` and `write_u8(a); write_u8(b)` give different
/// results.  `Hash` must make equal values hash alike under every `Hasher`, hence make them
/// issue the same sequence of calls.
#[derive(Default)]
pub struct CallSensitiveHasher(u64);

impl CallSensitiveHasher {
	fn mix(&mut self, tag: u64, x: u64) {
		self.0 = (self.0.rotate_left(5) ^ tag ^ x).wrapping_mul(0x51_7c_c1_b7_27_22_0a_95);
	}
}

impl std::hash::Hasher for CallSensitiveHasher {
	fn finish(&self) -> u64 {
		self.0
	}
	fn write(&mut self, bytes: &[u8]) {
		self.mix(0x100, bytes.len() as u64);
		for chunk in bytes.chunks(8) {
			let mut w = [0u8; 8];
			w[..chunk.len()].copy_from_slice(chunk);
			self.mix(0x200, u64::from_le_bytes(w));
		}
	}
	fn write_u8(&mut self, i: u8) {
		self.mix(0x300, i as u64);
	}
	fn write_usize(&mut self, i: usize) {
		self.mix(0x400, i as u64);
	}
}

/// std's SipHash and the call-sensitive hasher, combined
pub fn hash2<T: std::hash::Hash + ?Sized>(v: &T) -> u64 {
	use std::hash::Hasher;
	let mut a = std::collections::hash_map::DefaultHasher::new();
	v.hash(&mut a);
	let mut b = CallSensitiveHasher::default();
	v.hash(&mut b);
	a.finish() ^ b.finish().rotate_left(32)
}
