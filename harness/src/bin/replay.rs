//! replay <cases.jsonl> <results.jsonl> [<progress-file> [<first-case-index>]]
//!
//! Executes every case (one JSON object per line, computed by TLC) against the real iref and
//! writes one line per case that has at least one failed comparison, then a summary line.
//! Exit code 0 even when comparisons fail (failures are data); 2 on harness errors.

use iref_verif_harness::alloc_count::Counting;
use iref_verif_harness::{install_panic_hook, kinds, Fails};
use serde_json::{json, Value};
use std::collections::BTreeMap;
use std::fs::File;
use std::io::{BufRead, BufReader, BufWriter, Write};
use std::os::unix::fs::FileExt;

#[global_allocator]
static GLOBAL: Counting = Counting;

fn main() {
	let args: Vec<String> = std::env::args().collect();
	if args.len() < 3 {
		eprintln!("usage: replay <cases.jsonl> <results.jsonl> [<progress>]");
		std::process::exit(2);
	}
	install_panic_hook();
	let input = BufReader::new(File::open(&args[1]).expect("open cases"));
	let mut out = BufWriter::new(File::create(&args[2]).expect("create results"));
	let progress = args.get(3).map(|p| File::create(p).expect("create progress"));
	// resume after a crash: skip the cases up to and including the one that killed the process
	let start: usize = args.get(4).and_then(|s| s.parse().ok()).unwrap_or(0);
	let mut by_kind: BTreeMap<String, (u64, u64, u64)> = BTreeMap::new();
	let mut total_checks = 0u64;
	let mut failed_cases = 0u64;
	for (i, line) in input.lines().enumerate() {
		let line = line.expect("read line");
		if line.is_empty() || i < start {
			continue;
		}
		if let Some(p) = &progress {
			let _ = p.write_at(format!("{i:>12}\n").as_bytes(), 0);
		}
		let case: Value = match serde_json::from_str(&line) {
			Ok(v) => v,
			Err(e) => {
				eprintln!("harness: bad case line {i}: {e}");
				std::process::exit(2);
			}
		};
		let mut f = Fails::new();
		if let Err(e) = kinds::run_case(&case, &mut f) {
			eprintln!("harness: line {i}: {e}");
			std::process::exit(2);
		}
		let k = case["k"].as_str().unwrap_or("?").to_string();
		let e = by_kind.entry(k.clone()).or_insert((0, 0, 0));
		e.0 += 1;
		e.1 += f.checks;
		total_checks += f.checks;
		for o in f.obs.drain(..) {
			writeln!(out, "{}", json!({"obs": o})).unwrap();
		}
		if !f.list.is_empty() {
			e.2 += 1;
			failed_cases += 1;
			writeln!(out, "{}", json!({"i": i, "k": k, "case": case, "fails": f.list})).unwrap();
			out.flush().unwrap(); // an abort of the process must not lose what was found so far
		}
	}
	let kinds: BTreeMap<_, _> = by_kind
		.iter()
		.map(|(k, (c, ch, fc))| (k.clone(), json!({"cases": c, "checks": ch, "failed_cases": fc})))
		.collect();
	writeln!(out, "{}", json!({"summary": {"checks": total_checks, "failed_cases": failed_cases, "kinds": kinds}})).unwrap();
	out.flush().unwrap();
}
