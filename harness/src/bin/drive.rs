//! drive <seed> <histories> <steps> <events.ndjson>
//!
//! Direction B driver: performs random edit histories on the REAL owned buffers - long texts,
//! multi-byte characters, delimiter characters inside later components, 20-50 calls in a row -
//! and records one event per call *after it returns*: the text before, the call with its
//! argument, the text after (or the panic).  The events are validated by TLC afterwards
//! (spec/trace/Trace_Events.tla), each step judged from the implementation's own previous
//! text.  There is no oracle here.

use iref_verif_harness::alloc_count::Counting;
use iref_verif_harness::{enc, guard, install_panic_hook};
use rand::rngs::StdRng;
use rand::seq::SliceRandom;
use rand::{Rng, SeedableRng};
use serde_json::json;
use std::fs::File;
use std::io::{BufWriter, Write};

#[global_allocator]
static GLOBAL: Counting = Counting;

const SCHEMES: &[&str] = &["s", "http", "a+b.c-d", "urn"];
const USERS: &[&str] = &["", "u", "u:p", "%40", "é", "a;b=c"];
const HOSTS: &[&str] = &["", "h", "example.org", "1.2.3.4", "[::1]", "[1:2::3.4.5.6]", "[v7.a:b]", "%41", "é.x", "xn--e"];
const PORTS: &[&str] = &["", "8", "080", "65535"];
const SEGS: &[&str] = &["", "a", "b", ".", "..", "b:c", "1:c", "é", "%2F", "%2e", "@", "a;p=1", "😀", "longer-segment-name", "~", "!$&'()*+,;=", "b..", "...", ".a", "a."];
const QUERIES: &[&str] = &["", "q", "a:b/c?d", "x=1&y=2", "é", "\u{E000}", "%3F", "/?"];
const FRAGS: &[&str] = &["", "f", "a/b?c", "x?y/z:@", "é", "%23"];

fn pick<'a>(r: &mut StdRng, v: &'a [&'a str]) -> &'a str {
	v.choose(r).unwrap()
}

fn gen_authority(r: &mut StdRng) -> String {
	let mut a = String::new();
	if r.gen_bool(0.4) {
		a.push_str(pick(r, USERS));
		a.push('@');
	}
	a.push_str(pick(r, HOSTS));
	if r.gen_bool(0.4) {
		a.push(':');
		a.push_str(pick(r, PORTS));
	}
	a
}

fn gen_path(r: &mut StdRng, abs: bool) -> String {
	let n = if r.gen_bool(0.1) { r.gen_range(15..40) } else { r.gen_range(0..5) };
	let mut p = String::new();
	if abs {
		p.push('/');
	}
	for i in 0..n {
		if i > 0 {
			p.push('/');
		}
		p.push_str(pick(r, SEGS));
	}
	p
}

fn gen_ref(r: &mut StdRng) -> String {
	let mut s = String::new();
	let has_scheme = r.gen_bool(0.6);
	if has_scheme {
		s.push_str(pick(r, SCHEMES));
		s.push(':');
	}
	let has_auth = r.gen_bool(0.5);
	if has_auth {
		s.push_str("//");
		s.push_str(&gen_authority(r));
	}
	let abs = if has_auth { true } else { r.gen_bool(0.5) };
	let p = gen_path(r, abs);
	if has_auth && p == "/" && r.gen_bool(0.5) {
		// empty path after the authority
	} else {
		s.push_str(&p);
	}
	if r.gen_bool(0.4) {
		s.push('?');
		s.push_str(pick(r, QUERIES));
	}
	if r.gen_bool(0.4) {
		s.push('#');
		s.push_str(pick(r, FRAGS));
	}
	s
}

/// (op, arg) with arg = Some(text) | None; every argument is built through the checked
/// constructors by the caller, an invalid one is simply skipped.
fn gen_op(r: &mut StdRng, full: bool, has_auth: bool) -> (&'static str, Option<String>) {
	let k = r.gen_range(0..100);
	match k {
		0..=9 => ("set_scheme", if full || r.gen_bool(0.6) { Some(pick(r, SCHEMES).to_string()) } else { None }),
		10..=21 => ("set_authority", if r.gen_bool(0.7) { Some(gen_authority(r)) } else { None }),
		22..=37 => ("set_path", Some({ let abs = r.gen_bool(0.5); gen_path(r, abs) })),
		38..=45 => ("set_query", if r.gen_bool(0.7) { Some(pick(r, QUERIES).to_string()) } else { None }),
		46..=53 => ("set_fragment", if r.gen_bool(0.7) { Some(pick(r, FRAGS).to_string()) } else { None }),
		54..=65 => ("push", Some(pick(r, SEGS).to_string())),
		66..=73 => ("sym_push", Some(pick(r, SEGS).to_string())),
		74..=79 => ("pop", Some(String::new())),
		80..=82 => ("clear", Some(String::new())),
		83..=87 => ("normalize", Some(String::new())),
		88..=93 if has_auth => match r.gen_range(0..3) {
			0 => ("set_userinfo", if r.gen_bool(0.7) { Some(pick(r, USERS).to_string()) } else { None }),
			1 => ("set_host", Some(pick(r, HOSTS).to_string())),
			_ => ("set_port", if r.gen_bool(0.7) { Some(pick(r, PORTS).to_string()) } else { None }),
		},
		94..=99 if !full => ("resolve", Some({
			let mut b = format!("{}:", pick(r, SCHEMES));
			if r.gen_bool(0.6) {
				b.push_str("//");
				b.push_str(&gen_authority(r));
				if r.gen_bool(0.8) {
					b.push_str(&gen_path(r, true));
				}
			} else {
				let abs = r.gen_bool(0.5);
				b.push_str(&gen_path(r, abs));
			}
			if r.gen_bool(0.3) {
				b.push_str("?bq");
			}
			b
		})),
		_ => ("pop", Some(String::new())),
	}
}

macro_rules! apply {
	($buf:ident, $m:ident, $op:ident, $arg:ident, $full:tt, $Ri:ident) => {{
		use iref::$m::*;
		// returns false when the argument is not a valid value of its type (step skipped)
		(|| -> bool {
			match $op {
				"set_scheme" => {
					let s = match $arg.as_deref() { Some(x) => match Scheme::new(x) { Ok(v) => Some(v), Err(_) => return false }, None => None };
					apply!(@scheme $full, $buf, s);
				}
				"set_authority" => {
					let a = match $arg.as_deref() { Some(x) => match Authority::new(x) { Ok(v) => Some(v), Err(_) => return false }, None => None };
					$buf.set_authority(a);
				}
				"set_path" => { let Ok(p) = Path::new($arg.as_deref().unwrap()) else { return false }; $buf.set_path(p) }
				"set_query" => {
					let q = match $arg.as_deref() { Some(x) => match Query::new(x) { Ok(v) => Some(v), Err(_) => return false }, None => None };
					$buf.set_query(q);
				}
				"set_fragment" => {
					let q = match $arg.as_deref() { Some(x) => match Fragment::new(x) { Ok(v) => Some(v), Err(_) => return false }, None => None };
					$buf.set_fragment(q);
				}
				"push" => { let Ok(s) = Segment::new($arg.as_deref().unwrap()) else { return false }; $buf.path_mut().push(s) }
				"sym_push" => { let Ok(s) = Segment::new($arg.as_deref().unwrap()) else { return false }; $buf.path_mut().symbolic_push(s) }
				"pop" => { $buf.path_mut().pop(); }
				"clear" => $buf.path_mut().clear(),
				"normalize" => $buf.path_mut().normalize(),
				"set_userinfo" => {
					let u = match $arg.as_deref() { Some(x) => match UserInfo::new(x) { Ok(v) => Some(v), Err(_) => return false }, None => None };
					match $buf.authority_mut() { Some(mut a) => a.set_userinfo(u), None => return false }
				}
				"set_host" => {
					let Ok(h) = Host::new($arg.as_deref().unwrap()) else { return false };
					match $buf.authority_mut() { Some(mut a) => a.set_host(h), None => return false }
				}
				"set_port" => {
					let p = match $arg.as_deref() { Some(x) => match Port::new(x) { Ok(v) => Some(v), Err(_) => return false }, None => None };
					match $buf.authority_mut() { Some(mut a) => a.set_port(p), None => return false }
				}
				_ => return false,
			}
			true
		})()
	}};
	(@scheme true, $buf:ident, $s:ident) => { match $s { Some(s) => $buf.set_scheme(s), None => return false } };
	(@scheme false, $buf:ident, $s:ident) => { $buf.set_scheme($s) };
}

fn main() {
	let args: Vec<String> = std::env::args().collect();
	if args.len() < 5 {
		eprintln!("usage: drive <seed> <histories> <steps> <events.ndjson>");
		std::process::exit(2);
	}
	install_panic_hook();
	let seed: u64 = args[1].parse().expect("seed");
	let histories: usize = args[2].parse().expect("histories");
	let steps: usize = args[3].parse().expect("steps");
	let mut out = BufWriter::new(File::create(&args[4]).expect("create events"));
	let mut r = StdRng::seed_from_u64(seed);
	let mut n_events = 0u64;
	for h in 0..histories {
		// initial buffer: parsed, default, or built from a scheme
		let mut text = match h % 7 {
			0 => String::new(),
			1 => format!("{}:", pick(&mut r, SCHEMES)),
			_ => gen_ref(&mut r),
		};
		let use_uri = text.is_ascii() && r.gen_bool(0.5);
		for _ in 0..steps {
			let ascii = text.is_ascii();
			let fam = if use_uri && ascii { "uri" } else { "iri" };
			// kind: a text with a scheme may be held as a full URI/IRI or as a reference
			let Ok(as_ref) = iref::iri::IriRef::new(text.as_str()) else { break };
			let has_scheme = as_ref.scheme().is_some();
			let has_auth = as_ref.authority().is_some();
			let full = has_scheme && r.gen_bool(0.5);
			let (op, arg) = gen_op(&mut r, full, has_auth);
			if fam == "uri" && !arg.as_deref().unwrap_or("").is_ascii() {
				continue;
			}
			let pre = text.clone();
			let result: Result<Option<Vec<u8>>, String> = if fam == "uri" {
				if full {
					let Ok(mut buf) = iref::uri::UriBuf::new(pre.clone().into_bytes()) else { break };
					guard(|| if apply!(buf, uri, op, arg, true, Uri) { Some(buf.as_bytes().to_vec()) } else { None })
				} else {
					let Ok(mut buf) = iref::uri::UriRefBuf::new(pre.clone().into_bytes()) else { break };
					guard(|| {
						if op == "resolve" {
							match iref::uri::Uri::new(arg.as_deref().unwrap()) { Ok(b) => { buf.resolve(b); Some(buf.as_bytes().to_vec()) } Err(_) => None }
						} else if apply!(buf, uri, op, arg, false, Uri) { Some(buf.as_bytes().to_vec()) } else { None }
					})
				}
			} else if full {
				let Ok(mut buf) = iref::iri::IriBuf::new(pre.clone()) else { break };
				guard(|| if apply!(buf, iri, op, arg, true, Iri) { Some(buf.as_bytes().to_vec()) } else { None })
			} else {
				let Ok(mut buf) = iref::iri::IriRefBuf::new(pre.clone()) else { break };
				guard(|| {
					if op == "resolve" {
						match iref::iri::Iri::new(arg.as_deref().unwrap()) { Ok(b) => { buf.resolve(b); Some(buf.as_bytes().to_vec()) } Err(_) => None }
					} else if apply!(buf, iri, op, arg, false, Iri) { Some(buf.as_bytes().to_vec()) } else { None }
				})
			};
			let mut ev = json!({"ev": "edit", "fam": fam, "kind": if full { "full" } else { "ref" }, "pre": enc(&pre), "op": op,
				"arg": match &arg { Some(a) => enc(a), None => json!([-1]) }});
			match result {
				Ok(None) => continue, // invalid argument for its type, or not applicable: nothing was called
				Err(m) => {
					ev["panic"] = json!(true);
					ev["msg"] = json!(m);
					ev["post"] = json!([]);
					writeln!(out, "{ev}").unwrap();
					n_events += 1;
					break;
				}
				Ok(Some(bytes)) => {
					ev["panic"] = json!(false);
					match String::from_utf8(bytes) {
						Ok(post) => {
							ev["post"] = enc(&post);
							writeln!(out, "{ev}").unwrap();
							n_events += 1;
							text = post;
						}
						Err(e) => {
							// not even UTF-8: record as bytes mapped to code points (cannot be a member of any language > 0x7F ...)
							ev["post"] = serde_json::Value::Array(e.into_bytes().iter().map(|b| json!(0x110000u32 + *b as u32)).collect());
							writeln!(out, "{ev}").unwrap();
							n_events += 1;
							break;
						}
					}
				}
			}
		}
	}
	out.flush().unwrap();
	println!("{n_events}");
}
