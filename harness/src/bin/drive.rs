//! drive <seed> <histories> <steps> <events.ndjson>
//!
//! Direction B driver: performs random edit histories on the REAL owned buffers - long texts,
//! multi-byte characters, delimiter characters inside later components, 20-50 calls in a row -
//! and records one event per call *after it returns*: the text before, the call with its
//! argument, the text after (or the panic).  The events are validated by TLC afterwards
//! (spec/trace/Trace_Events.tla), each step judged from the implementation's own previous
//! text.  There is no oracle here.

use iref_verif_harness::alloc_count::Counting;
use iref_verif_harness::{enc, guard, install_panic_hook};
use rand::rngs::StdRng;
use rand::seq::SliceRandom;
use rand::{Rng, SeedableRng};
use serde_json::json;
use std::fs::File;
use std::io::{BufWriter, Write};

#[global_allocator]
static GLOBAL: Counting = Counting;

/// The call about to be made, written to the file named by DRIVE_PROGRESS *before* it is made:
/// if the process dies in the call (an abort is not an unwinding panic) the driver's caller
/// attributes the death to that call.
fn pending(ev: &serde_json::Value) {
	if let Ok(p) = std::env::var("DRIVE_PROGRESS") {
		let _ = std::fs::write(p, format!("{ev}\n"));
	}
}

const SCHEMES: &[&str] = &["s", "http", "a+b.c-d", "urn", "svn+ssh", "x-1.2", "1a", "a:b", "é"];
const USERS: &[&str] = &["", "u", "%75", "u:p", "%40", "é", "a;b=c", "~", "%7E", "service-account-with-a-long-name-0123456789", "ééééééééééééééééé", "a@b", "a/b", "\u{E000}", "a#"];
const HOSTS: &[&str] = &["", "h", "%68", "ex%61mple.org", "caf%C3%A9.x", "café.x", "[v1.é]", "example.org", "1.2.3.4", "[::1]", "[1:2::3.4.5.6]", "[v7.a:b]", "%41", "é.x", "xn--e"];
const PORTS: &[&str] = &["", "8", "080", "65535", "8a", ":1", "８"];
const SEGS: &[&str] = &["\u{43a}\u{43e}\u{442}", "\u{42f}a:b", "men\u{fa}", "\u{ba}:x", "\u{4eba}", "a..", "...", "\u{200e}a\u{202e}", "", "a", "b", ".", "..", "b:c", "1:c", "é", "%2F", "%2e", "@", "a;p=1", "😀", "longer-segment-name", "~", "!$&'()*+,;=", "b..", "...", ".a", "a.", "%2E%2E", "%2e%2e", ".%2E", "%2e", "é:b", "été:2024", "naïve", "ÿ£¿", "は", "%2f", "%2F", "a?b", "a#b", "a/b", "\u{E000}", "%zz", "["];
const QUERIES: &[&str] = &["\u{202a}q\u{202c}", "a:~:text=b", "", "q", "a:b/c?d", "x=1&y=2", "é", "\u{E000}", "%3F", "/?", "a#b", "%", "\u{FFFE}"];
const FRAGS: &[&str] = &["history:~:text=the%20first", "\u{200f}x\u{200e}", "", "f", "a/b?c", "x?y/z:@", "é", "%23", "\u{E000}", "x\u{F0000}y", "a#b", "%2"];

/// A value for a component: from its vocabulary (values chosen to matter), or - about one time
/// in three - drawn from the CHARACTER CLASSES of the component's production, with a length that
/// is mostly small and sometimes sits on a power of two (so that no behaviour can hide behind
/// "a value the testers did not think of": a particular scheme name, hex digit, pair of
/// neighbouring characters, port of more than n digits, component longer than an inline buffer).
fn pick(r: &mut StdRng, v: &'static [&'static str]) -> String {
	let class = if std::ptr::eq(v, SEGS) { 1 } else if std::ptr::eq(v, QUERIES) { 2 } else if std::ptr::eq(v, FRAGS) { 3 }
		else if std::ptr::eq(v, USERS) { 4 } else if std::ptr::eq(v, HOSTS) { 5 } else if std::ptr::eq(v, PORTS) { 6 }
		else if std::ptr::eq(v, SCHEMES) { 7 } else { 0 };
	if class == 0 || !r.gen_bool(0.3) {
		return v.choose(r).unwrap().to_string();
	}
	const NAMES: &[&str] = &["http", "https", "file", "urn", "mailto", "data", "ftp", "ws", "wss", "about", "tag", "tel", "git+ssh", "view-source", "z39.50r", "HTTP", "File"];
	if class == 7 {
		if r.gen_bool(0.5) {
			return NAMES.choose(r).unwrap().to_string();
		}
		let n = class_len(r);
		let mut s = String::new();
		s.push(*b"abcdefghijklmnopqrstuvwxyzABCDEFGHIJKLMNOPQRSTUVWXYZ".choose(r).unwrap() as char);
		for _ in 1..n.max(1) { s.push(*b"abcdefghijklmnopqrstuvwxyzABCDEFGHIJKLMNOPQRSTUVWXYZ0123456789+-.".choose(r).unwrap() as char); }
		return s;
	}
	if class == 6 {
		// ports: any number of digits (beyond u16, u32, u64), leading zeros
		let n = *[0usize, 1, 2, 4, 5, 5, 6, 10, 11, 20, 21, 40].choose(r).unwrap();
		return (0..n).map(|_| (b'0' + r.gen_range(0..10)) as char).collect();
	}
	if class == 5 && r.gen_bool(0.4) {
		// an IP literal or IPv4 address with random digits
		let hex = |r: &mut StdRng| { let d = r.gen_range(1..=4); (0..d).map(|_| *b"0123456789abcdefABCDEF".choose(r).unwrap() as char).collect::<String>() };
		let left = r.gen_range(0..8);
		let right = r.gen_range(0..(8 - left));
		return match r.gen_range(0..3) {
			0 => format!("[{}::{}]", (0..left).map(|_| hex(r)).collect::<Vec<_>>().join(":"), (0..right).map(|_| hex(r)).collect::<Vec<_>>().join(":")),
			1 => format!("{}.{}.{}.{}", r.gen_range(0..256), r.gen_range(0..256), r.gen_range(0..256), r.gen_range(0..256)),
			_ => format!("[v{}.{}]", hex(r), (0..r.gen_range(1..12)).map(|_| *b"abcXYZ019-._~!$&'()*+,;=:".choose(r).unwrap() as char).collect::<String>()),
		};
	}
	const UNRESERVED: &[u8] = b"ABCDEFGHIJKLMNOPQRSTUVWXYZabcdefghijklmnopqrstuvwxyz0123456789-._~";
	const SUB_DELIMS: &[u8] = b"!$&'()*+,;=";
	const HEX: &[u8] = b"0123456789ABCDEFabcdef";
	const UCS: &[char] = &['\u{a0}', '\u{e9}', '\u{ff}', '\u{3000}', '\u{d7ff}', '\u{f900}', '\u{feff}', '\u{ffef}', '\u{10000}', '\u{1f600}', '\u{efffd}',
		// characters that ALIAS a delimiter (a UTF-8 byte = delimiter | 0x80, or the low byte of the code point = delimiter) and bidi marks
		'\u{ba}', '\u{af}', '\u{bf}', '\u{a3}', '\u{a5}', '\u{ae}', '\u{6c0}', '\u{740}', '\u{fa}', '\u{43a}', '\u{42f}', '\u{43f}', '\u{423}', '\u{440}', '\u{45b}', '\u{45d}', '\u{425}', '\u{42e}', '\u{4e3a}', '\u{202f}', '\u{672f}', '\u{200e}', '\u{200f}', '\u{202a}', '\u{202e}', '\u{2066}', '\u{2069}'];
	let n = class_len(r);
	let mut s = String::new();
	for _ in 0..n {
		match r.gen_range(0..100) {
			0..=49 => s.push(*UNRESERVED.choose(r).unwrap() as char),
			50..=61 => s.push(*SUB_DELIMS.choose(r).unwrap() as char),
			62..=69 => match class { 1 => s.push(*b":@".choose(r).unwrap() as char), 2 | 3 => s.push(*b":@/?".choose(r).unwrap() as char), 4 => s.push(':'), _ => s.push('-') },
			70..=81 => { s.push('%'); s.push(*HEX.choose(r).unwrap() as char); s.push(*HEX.choose(r).unwrap() as char); }
			82..=91 => s.push(*UCS.choose(r).unwrap()),
			92..=94 if class == 2 => s.push(*['\u{e000}', '\u{f8ff}', '\u{f0000}', '\u{10fffd}'].choose(r).unwrap()),
			_ => s.push(*b".-_~".choose(r).unwrap() as char),
		}
	}
	s
}

/// mostly small; sometimes on or next to a power of two
fn class_len(r: &mut StdRng) -> usize {
	match r.gen_range(0..1000) {
		0..=699 => r.gen_range(0..13),
		700..=899 => r.gen_range(13..41),
		900..=969 => { let k = *[32usize, 64].choose(r).unwrap(); k - 2 + r.gen_range(0..5) }
		970..=994 => { let k = *[128usize, 256].choose(r).unwrap(); k - 2 + r.gen_range(0..5) }
		_ => { let k = *[512usize, 1024].choose(r).unwrap(); k - 2 + r.gen_range(0..5) }
	}
}

fn gen_authority(r: &mut StdRng) -> String {
	let mut a = String::new();
	if r.gen_bool(0.4) {
		a.push_str(&pick(r, USERS));
		a.push('@');
	}
	a.push_str(&pick(r, HOSTS));
	if r.gen_bool(0.4) {
		a.push(':');
		a.push_str(&pick(r, PORTS));
	}
	a
}

fn gen_path(r: &mut StdRng, abs: bool) -> String {
	// mostly short; sometimes beyond 16 segments; sometimes beyond 512 bytes (the inline buffers)
	// mostly short; sometimes beyond 16 segments; now and then beyond 512 bytes (the inline buffers),
	// made of long segments so that the text stays cheap for TLC to judge
	const LONG: &'static [&'static str] = &["longer-segment-name-0123456789", "another.long~segment_ABCDEFGHIJKLMNOP", "ééééééééééééééé", "%2E%2E-is-not-a-dot-segment", "x;p=1;q=2;r=3;s=4;t=5"];
	let (n, long) = match r.gen_range(0..100) { 0..=6 => (r.gen_range(15..40), false), 7..=9 => (r.gen_range(24..32), true), _ => (r.gen_range(0..5), false) };
	let mut p = String::new();
	if abs {
		p.push('/');
	}
	for i in 0..n {
		if i > 0 {
			p.push('/');
		}
		if long && !r.gen_bool(0.25) {
			p.push_str(&pick(r, LONG));
		} else {
			p.push_str(&pick(r, SEGS));
		}
	}
	p
}

fn gen_ref(r: &mut StdRng) -> String {
	let mut s = String::new();
	let has_scheme = r.gen_bool(0.6);
	if has_scheme {
		s.push_str(&pick(r, SCHEMES));
		s.push(':');
	}
	let has_auth = r.gen_bool(0.5);
	if has_auth {
		s.push_str("//");
		s.push_str(&gen_authority(r));
	}
	let abs = if has_auth { true } else { r.gen_bool(0.5) };
	let p = gen_path(r, abs);
	if has_auth && p == "/" && r.gen_bool(0.5) {
		// empty path after the authority
	} else {
		s.push_str(&p);
	}
	if r.gen_bool(0.4) {
		s.push('?');
		s.push_str(&pick(r, QUERIES));
	}
	if r.gen_bool(0.4) {
		s.push('#');
		s.push_str(&pick(r, FRAGS));
	}
	s
}

/// (op, arg) with arg = Some(text) | None; every argument is built through the checked
/// constructors by the caller, an invalid one is simply skipped.
fn gen_op(r: &mut StdRng, full: bool, has_auth: bool) -> (&'static str, Option<String>) {
	let k = r.gen_range(0..100);
	match k {
		0..=9 => ("set_scheme", if full || r.gen_bool(0.6) { Some(pick(r, SCHEMES).to_string()) } else { None }),
		10..=21 => ("set_authority", if r.gen_bool(0.7) { Some(gen_authority(r)) } else { None }),
		22..=37 => ("set_path", Some({ let abs = r.gen_bool(0.5); gen_path(r, abs) })),
		38..=45 => ("set_query", if r.gen_bool(0.7) { Some(pick(r, QUERIES).to_string()) } else { None }),
		46..=53 => ("set_fragment", if r.gen_bool(0.7) { Some(pick(r, FRAGS).to_string()) } else { None }),
		54..=65 => ("push", Some(pick(r, SEGS).to_string())),
		66..=73 => ("sym_push", Some(pick(r, SEGS).to_string())),
		74..=79 => ("pop", Some(String::new())),
		80..=82 => ("clear", Some(String::new())),
		83..=87 => ("normalize", Some(String::new())),
		88..=93 if has_auth => match r.gen_range(0..3) {
			0 => ("set_userinfo", if r.gen_bool(0.7) { Some(pick(r, USERS).to_string()) } else { None }),
			1 => ("set_host", Some(pick(r, HOSTS).to_string())),
			_ => ("set_port", if r.gen_bool(0.7) { Some(pick(r, PORTS).to_string()) } else { None }),
		},
		94..=99 if !full => ("resolve", Some({
			let mut b = format!("{}:", pick(r, SCHEMES));
			if r.gen_bool(0.6) {
				b.push_str("//");
				b.push_str(&gen_authority(r));
				if r.gen_bool(0.8) {
					b.push_str(&gen_path(r, true));
				}
			} else {
				let abs = r.gen_bool(0.5);
				b.push_str(&gen_path(r, abs));
			}
			if r.gen_bool(0.3) {
				b.push_str("?bq");
			}
			b
		})),
		_ => ("pop", Some(String::new())),
	}
}

macro_rules! apply {
	($buf:ident, $m:ident, $op:ident, $arg:ident, $full:tt, $Ri:ident) => {{
		use iref::$m::*;
		// returns false when the argument is not a valid value of its type (step skipped)
		(|| -> bool {
			match $op {
				"set_scheme" => {
					let s = match $arg.as_deref() { Some(x) => match Scheme::new(x) { Ok(v) => Some(v), Err(_) => return false }, None => None };
					apply!(@scheme $full, $buf, s);
				}
				"set_authority" => {
					let a = match $arg.as_deref() { Some(x) => match Authority::new(x) { Ok(v) => Some(v), Err(_) => return false }, None => None };
					$buf.set_authority(a);
				}
				"set_path" => { let Ok(p) = Path::new($arg.as_deref().unwrap()) else { return false }; $buf.set_path(p) }
				"set_query" => {
					let q = match $arg.as_deref() { Some(x) => match Query::new(x) { Ok(v) => Some(v), Err(_) => return false }, None => None };
					$buf.set_query(q);
				}
				"set_fragment" => {
					let q = match $arg.as_deref() { Some(x) => match Fragment::new(x) { Ok(v) => Some(v), Err(_) => return false }, None => None };
					$buf.set_fragment(q);
				}
				"push" => { let Ok(s) = Segment::new($arg.as_deref().unwrap()) else { return false }; $buf.path_mut().push(s) }
				"sym_push" => { let Ok(s) = Segment::new($arg.as_deref().unwrap()) else { return false }; $buf.path_mut().symbolic_push(s) }
				"pop" => { $buf.path_mut().pop(); }
				"clear" => $buf.path_mut().clear(),
				"normalize" => $buf.path_mut().normalize(),
				"set_userinfo" => {
					let u = match $arg.as_deref() { Some(x) => match UserInfo::new(x) { Ok(v) => Some(v), Err(_) => return false }, None => None };
					match $buf.authority_mut() { Some(mut a) => a.set_userinfo(u), None => return false }
				}
				"set_host" => {
					let Ok(h) = Host::new($arg.as_deref().unwrap()) else { return false };
					match $buf.authority_mut() { Some(mut a) => a.set_host(h), None => return false }
				}
				"set_port" => {
					let p = match $arg.as_deref() { Some(x) => match Port::new(x) { Ok(v) => Some(v), Err(_) => return false }, None => None };
					match $buf.authority_mut() { Some(mut a) => a.set_port(p), None => return false }
				}
				_ => return false,
			}
			true
		})()
	}};
	(@scheme true, $buf:ident, $s:ident) => { match $s { Some(s) => $buf.set_scheme(s), None => return false } };
	(@scheme false, $buf:ident, $s:ident) => { $buf.set_scheme($s) };
}

fn with_spare(bytes: &[u8]) -> Vec<u8> {
	use std::sync::atomic::{AtomicUsize, Ordering};
	static TURN: AtomicUsize = AtomicUsize::new(0);
	let spare = [0usize, 1, 7, 64, 4096][TURN.fetch_add(1, Ordering::Relaxed) % 5];
	let mut v = Vec::with_capacity(bytes.len() + spare);
	v.extend_from_slice(bytes);
	v
}

/// C04 "however obtained": the buffer a step works on is parsed, or converted from the other
/// family / from the reference or full type, or built by `default()` / `from_scheme`.
/// Returns the buffer and the name of the route; None when the route does not apply to `pre`.
macro_rules! obtain {
	(full, $m:ident, $pre:expr, $route:expr) => {{
		let pre: &str = $pre;
		match $route {
			1 => obtain!(@ref_buf $m, pre).and_then(|b| obtain!(@try_full $m, b)).map(|b| (b, "try_into_full")),
			2 if pre.is_ascii() => iref::uri::UriBuf::new(pre.as_bytes().to_vec()).ok().map(|b| (obtain!(@from_uri $m, b), "from_uri")),
			3 if pre.ends_with(':') => iref::uri::SchemeBuf::new(pre[..pre.len() - 1].as_bytes().to_vec()).ok().map(|s| (<obtain!(@full_ty $m)>::from_scheme(s), "from_scheme")),
			_ => obtain!(@new_full $m, pre).map(|b| (b, "new")),
		}
	}};
	(reference, $m:ident, $pre:expr, $route:expr) => {{
		let pre: &str = $pre;
		match $route {
			1 => obtain!(@new_full $m, pre).map(|b| (obtain!(@into_ref $m, b), "full.into_ref")),
			2 if pre.is_ascii() => iref::uri::UriRefBuf::new(pre.as_bytes().to_vec()).ok().map(|b| (obtain!(@from_uri_ref $m, b), "from_uri_ref")),
			3 if pre.is_empty() => Some((<obtain!(@ref_ty $m)>::default(), "default")),
			_ => obtain!(@ref_buf $m, pre).map(|b| (b, "new")),
		}
	}};
	(@full_ty uri) => { iref::uri::UriBuf };
	(@full_ty iri) => { iref::iri::IriBuf };
	(@ref_ty uri) => { iref::uri::UriRefBuf };
	(@ref_ty iri) => { iref::iri::IriRefBuf };
	// (the vector / string handed to the constructor has spare capacity of 0, 1, 7, 64 or 4096 bytes in turn:
	// nothing may depend on it)
	(@new_full uri, $pre:expr) => { iref::uri::UriBuf::new(with_spare($pre.as_bytes())).ok() };
	(@new_full iri, $pre:expr) => { iref::iri::IriBuf::new(String::from_utf8(with_spare($pre.as_bytes())).unwrap()).ok() };
	(@ref_buf uri, $pre:expr) => { iref::uri::UriRefBuf::new(with_spare($pre.as_bytes())).ok() };
	(@ref_buf iri, $pre:expr) => { iref::iri::IriRefBuf::new(String::from_utf8(with_spare($pre.as_bytes())).unwrap()).ok() };
	(@try_full uri, $b:expr) => { $b.try_into_uri().ok() };
	(@try_full iri, $b:expr) => { $b.try_into_iri().ok() };
	(@into_ref uri, $b:expr) => { $b.into_uri_ref() };
	(@into_ref iri, $b:expr) => { $b.into_iri_ref() };
	(@from_uri uri, $b:expr) => { $b };
	(@from_uri iri, $b:expr) => { $b.into_iri() };
	(@from_uri_ref uri, $b:expr) => { $b };
	(@from_uri_ref iri, $b:expr) => { $b.into_iri_ref() };
}

/// A near miss: one random edit (insert / delete / replace) with a character that matters.
fn mutate(r: &mut StdRng, s: &str) -> String {
	const SPECIAL: &[char] = &[':', '/', '?', '#', '[', ']', '@', '%', ' ', '<', '"', '^', '|', '\\', '\u{7f}', '\u{0}', 'g', 'A', '0',
		'\u{e9}', '\u{E000}', '\u{FFFF}', '\u{10FFFF}', '\u{D7FF}', '\u{FDD0}', '\u{EFFFD}', '\u{E0000}'];
	let mut cs: Vec<char> = s.chars().collect();
	let c = *SPECIAL.choose(r).unwrap();
	let pos = if cs.is_empty() { 0 } else { r.gen_range(0..=cs.len()) };
	match r.gen_range(0..3) {
		0 => cs.insert(pos, c),
		1 if !cs.is_empty() => { cs.remove(pos.min(cs.len() - 1)); }
		_ if !cs.is_empty() => { let k = pos.min(cs.len() - 1); cs[k] = c; }
		_ => cs.push(c),
	}
	cs.into_iter().collect()
}

/// A random authority drawn from the character CLASSES of RFC 3986/3987 section 3.2 (not from a
/// vocabulary): every allowed ASCII character can stand next to every delimiter.
fn gen_class_authority(r: &mut StdRng, ascii: bool) -> String {
	const UNRESERVED: &[u8] = b"ABCDEFGHIJKLMNOPQRSTUVWXYZabcdefghijklmnopqrstuvwxyz0123456789-._~";
	const SUB_DELIMS: &[u8] = b"!$&'()*+,;=";
	const HEX: &[u8] = b"0123456789ABCDEFabcdef";
	const UCS: &[char] = &['\u{a0}', '\u{e9}', '\u{ff}', '\u{3000}', '\u{d7ff}', '\u{f900}', '\u{feff}', '\u{ffef}', '\u{10000}', '\u{1f600}', '\u{efffd}',
		// characters that ALIAS a delimiter (a UTF-8 byte = delimiter | 0x80, or the low byte of the code point = delimiter) and bidi marks
		'\u{ba}', '\u{af}', '\u{bf}', '\u{a3}', '\u{a5}', '\u{ae}', '\u{6c0}', '\u{740}', '\u{fa}', '\u{43a}', '\u{42f}', '\u{43f}', '\u{423}', '\u{440}', '\u{45b}', '\u{45d}', '\u{425}', '\u{42e}', '\u{4e3a}', '\u{202f}', '\u{672f}', '\u{200e}', '\u{200f}', '\u{202a}', '\u{202e}', '\u{2066}', '\u{2069}'];
	fn chars(r: &mut StdRng, n: usize, colon: bool, ascii: bool, out: &mut String) {
		for _ in 0..n {
			match r.gen_range(0..100) {
				0..=54 => out.push(*UNRESERVED.choose(r).unwrap() as char),
				55..=69 => out.push(*SUB_DELIMS.choose(r).unwrap() as char),
				70..=79 if colon => out.push(':'),
				80..=89 => { out.push('%'); out.push(*HEX.choose(r).unwrap() as char); out.push(*HEX.choose(r).unwrap() as char); }
				90..=99 if !ascii => out.push(*UCS.choose(r).unwrap()),
				_ => out.push(*UNRESERVED.choose(r).unwrap() as char),
			}
		}
	}
	let mut a = String::new();
	if r.gen_bool(0.6) {
		let n = r.gen_range(0..14);
		chars(r, n, true, ascii, &mut a);
		a.push('@');
	}
	match r.gen_range(0..100) {
		0..=49 => { let n = r.gen_range(0..14); chars(r, n, false, ascii, &mut a) }
		50..=69 => {
			let groups = |r: &mut StdRng, k: usize| (0..k).map(|_| { let d = r.gen_range(1..=4); (0..d).map(|_| *HEX.choose(r).unwrap() as char).collect::<String>() }).collect::<Vec<_>>().join(":");
			let left = r.gen_range(0..8);
			let right = r.gen_range(0..(8 - left));
			if r.gen_bool(0.3) {
				a.push_str(&format!("[{}::{}{}{}.{}.{}.{}]", groups(r, left), groups(r, right.min(5)), if right.min(5) > 0 { ":" } else { "" },
					r.gen_range(0..256), r.gen_range(0..256), r.gen_range(0..256), r.gen_range(0..256)));
			} else {
				a.push_str(&format!("[{}::{}]", groups(r, left), groups(r, right)));
			}
		}
		70..=84 => a.push_str(&format!("{}.{}.{}.{}", r.gen_range(0..256), r.gen_range(0..256), r.gen_range(0..256), r.gen_range(0..256))),
		_ => {
			a.push_str("[v");
			for _ in 0..r.gen_range(1..4) { a.push(*HEX.choose(r).unwrap() as char); }
			a.push('.');
			let n = r.gen_range(1..10);
			chars(r, n, true, true, &mut a);
			// no percent-escapes inside an IP literal
			while a.contains('%') { a = a.replacen('%', "-", 1); }
			a.push(']');
		}
	}
	if r.gen_bool(0.5) {
		a.push(':');
		for _ in 0..r.gen_range(0..6) { a.push((b'0' + r.gen_range(0..10)) as char); }
	}
	a
}

macro_rules! auth_event {
	($out:ident, $n:ident, $w:ident, $fam:expr, $m:ident, $Full:ident) => {{
		pending(&json!({"ev": "auth", "fam": $fam, "w": enc($w), "ok": false, "panic": true, "v": {}, "msg": "process aborted in this call"}));
		let r = guard(|| iref::$m::Authority::new($w).ok().map(|a| {
			let view = |u: Option<&str>, h: &str, p: Option<&str>| json!({"userinfo": enc_opt(u), "host": enc(h), "port": enc_opt(p)});
			let parts = a.parts();
			let emb_text = format!("s://{}/p", $w);
			let emb = iref::$m::$Full::new(emb_text.as_str()).ok().and_then(|x| x.authority().map(|e|
				view(e.user_info().map(|x| x.as_str()), e.host().as_str(), e.port().map(|x| x.as_str()))));
			json!({"acc": view(a.user_info().map(|x| x.as_str()), a.host().as_str(), a.port().map(|x| x.as_str())),
				"parts": view(parts.user_info.map(|x| x.as_str()), parts.host.as_str(), parts.port.map(|x| x.as_str())),
				"emb": emb.unwrap_or(json!({}))})
		}));
		let ev = match r {
			Ok(Some(v)) => json!({"ev": "auth", "fam": $fam, "w": enc($w), "ok": true, "panic": false, "v": v}),
			Ok(None) => json!({"ev": "auth", "fam": $fam, "w": enc($w), "ok": false, "panic": false, "v": {}}),
			Err(m) => json!({"ev": "auth", "fam": $fam, "w": enc($w), "ok": false, "panic": true, "v": {}, "msg": m}),
		};
		writeln!($out, "{ev}").unwrap();
		$n += 1;
	}};
}

macro_rules! parse_event {
	($out:ident, $n:ident, $w:ident, $tag:expr, $T:ty, $scheme:expr) => { parse_event!($out, $n, $w, $tag, $T, $scheme, "random") };
	($out:ident, $n:ident, $w:ident, $tag:expr, $T:ty, $scheme:expr, $src:expr) => {{
		pending(&json!({"ev": "parse", "src": $src, "ty": $tag, "w": enc($w), "ok": false, "panic": true, "p": {}, "msg": "process aborted in this call"}));
		let r = guard(|| <$T>::new($w).ok().map(|v| {
			let sch: Option<String> = $scheme(v);
			json!({"scheme": enc_opt(sch.as_deref()), "authority": enc_opt(v.authority().map(|x| x.as_str())),
				"path": enc(v.path().as_str()), "query": enc_opt(v.query().map(|x| x.as_str())),
				"fragment": enc_opt(v.fragment().map(|x| x.as_str()))})
		}));
		let ev = match r {
			Ok(Some(p)) => json!({"ev": "parse", "src": $src, "ty": $tag, "w": enc($w), "ok": true, "panic": false, "p": p}),
			Ok(None) => json!({"ev": "parse", "src": $src, "ty": $tag, "w": enc($w), "ok": false, "panic": false, "p": {}}),
			Err(m) => json!({"ev": "parse", "src": $src, "ty": $tag, "w": enc($w), "ok": false, "panic": true, "p": {}, "msg": m}),
		};
		writeln!($out, "{ev}").unwrap();
		$n += 1;
	}};
}

fn enc_opt(s: Option<&str>) -> serde_json::Value {
	match s {
		Some(s) => enc(s),
		None => json!([-1]),
	}
}

/// drive parse <seed> <n> <out>: random valid references, near misses and byte strings, with the
/// verdict and the components reported by the real parsers.
fn main_parse(args: &[String]) {
	let seed: u64 = args[2].parse().expect("seed");
	let n: usize = args[3].parse().expect("n");
	let mut out = std::io::LineWriter::new(File::create(&args[4]).expect("create events"));
	let mut r = StdRng::seed_from_u64(seed);
	let mut count = 0u64;
	// ---- length sweep (C02): each component in turn takes every length 0..=140 and the lengths
	// ---- around 256, 512, 1024, 4096 while the others stay short; read through the individual
	// ---- accessors of the four types
	{
		let lens: Vec<usize> = (0..=140usize).chain(254..=258).chain(510..=514).chain(1022..=1026).chain(4094..=4098).chain(65534..=65538).collect();
		for kind in 0..8 {
			for &l in &lens {
				let fill = |c: char, l: usize| -> String { std::iter::repeat(c).take(l).collect() };
				let w = match kind {
					0 if l > 0 => format!("s{}://u@h:8/p/seg?q#f", fill('a', l - 1)),
					1 => format!("s://{}@h:8/p/seg?q#f", fill('u', l)),
					2 => format!("s://u@{}:8/p/seg?q#f", fill('h', l)),
					3 => format!("s://u@h:{}/p/seg?q#f", fill('7', l)),
					4 => format!("s://u@h:8/{}/seg?q#f", fill('p', l)),
					5 => format!("s://u@h:8/p/{}?q#f", fill('g', l)),
					6 => format!("s://u@h:8/p/seg?{}#f", fill('q', l)),
					7 => format!("s://u@h:8/p/seg?q#{}", fill('f', l)),
					_ => continue,
				};
				let w = w.as_str();
				if l > 300 {
					// too long for TLC to take apart: the byte ranges of what the accessors return are
					// recorded and judged by arithmetic on the lengths (Trace_Events.SweepBigConforms)
					macro_rules! ranges {
						($T:ty, $tag:expr, |$v:ident| $scheme:expr) => {{
							pending(&json!({"ev": "sweep_big", "ty": $tag, "kind": kind, "l": l, "ok": false, "panic": true, "r": {}, "msg": "process aborted in this call"}));
							let tb = w.as_bytes();
							let off = |x: Option<&[u8]>| -> serde_json::Value { match x { Some(x) => json!([(x.as_ptr() as usize).wrapping_sub(tb.as_ptr() as usize), x.len()]), None => json!([-1, -1]) } };
							let r = guard(|| <$T>::new(w).ok().map(|$v| {
								let v = $v;
								let sch: Option<&[u8]> = $scheme;
								json!({"scheme": off(sch), "authority": off(v.authority().map(|x| x.as_bytes())), "path": off(Some(v.path().as_bytes())),
									"query": off(v.query().map(|x| x.as_bytes())), "fragment": off(v.fragment().map(|x| x.as_bytes())),
									"userinfo": off(v.authority().and_then(|a| a.user_info()).map(|x| x.as_bytes())), "host": off(v.authority().map(|a| a.host().as_bytes())),
									"port": off(v.authority().and_then(|a| a.port()).map(|x| x.as_bytes())),
									"last": off(v.path().segments().next_back().map(|x| x.as_bytes()))})
							}));
							let ev = match r {
								Ok(Some(p)) => json!({"ev": "sweep_big", "ty": $tag, "kind": kind, "l": l, "ok": true, "panic": false, "r": p}),
								Ok(None) => json!({"ev": "sweep_big", "ty": $tag, "kind": kind, "l": l, "ok": false, "panic": false, "r": {}}),
								Err(m) => json!({"ev": "sweep_big", "ty": $tag, "kind": kind, "l": l, "ok": false, "panic": true, "r": {}, "msg": m}),
							};
							writeln!(out, "{ev}").unwrap();
							count += 1;
						}};
					}
					ranges!(iref::iri::IriRef, "IriRef", |v| v.scheme().map(|x| x.as_bytes()));
					ranges!(iref::iri::Iri, "Iri", |v| Some(v.scheme().as_bytes()));
					ranges!(iref::uri::UriRef, "UriRef", |v| v.scheme().map(|x| x.as_bytes()));
					ranges!(iref::uri::Uri, "Uri", |v| Some(v.scheme().as_bytes()));
					continue;
				}
				parse_event!(out, count, w, "IriRef", iref::iri::IriRef, |v: &iref::iri::IriRef| v.scheme().map(|x| x.as_str().to_string()), "sweep");
				parse_event!(out, count, w, "Iri", iref::iri::Iri, |v: &iref::iri::Iri| Some(v.scheme().as_str().to_string()), "sweep");
				parse_event!(out, count, w, "UriRef", iref::uri::UriRef, |v: &iref::uri::UriRef| v.scheme().map(|x| x.as_str().to_string()), "sweep");
				parse_event!(out, count, w, "Uri", iref::uri::Uri, |v: &iref::uri::Uri| Some(v.scheme().as_str().to_string()), "sweep");
			}
		}
	}
	// ---- character sweep (C02, C03): every printable ASCII character and a few others as the first
	// ---- and the last character of each component, and next to an escape; verdict and components
	// ---- (the grammar decides which are allowed: TLC judges with InLang and Parts / AuthParts)
	{
		let chars: Vec<char> = (0x21u8..=0x7e).map(|b| b as char).chain(['\u{a0}', '\u{e9}', '\u{e000}', '\u{fffd}', '\u{10000}']).chain(['\u{ba}', '\u{af}', '\u{bf}', '\u{a3}', '\u{a5}', '\u{ae}', '\u{6c0}', '\u{740}', '\u{fa}', '\u{43a}', '\u{42f}', '\u{43f}', '\u{423}', '\u{440}', '\u{45b}', '\u{45d}', '\u{425}', '\u{42e}', '\u{4e3a}', '\u{202f}', '\u{672f}', '\u{200e}', '\u{200f}', '\u{202a}', '\u{202e}', '\u{2066}', '\u{2069}']).collect();
		for &c in &chars {
			for shape in 0..4 {
				let x: String = match shape { 0 => format!("{c}x"), 1 => format!("x{c}"), 2 => format!("%41{c}"), _ => format!("{c}%41") };
				for kind in 0..7 {
					let w = match kind {
						0 => format!("{x}://u@h:8/p?q#f"),
						1 => format!("s://{x}@h:8/p?q#f"),
						2 => format!("s://u@{x}:8/p?q#f"),
						3 => format!("s://u@h:8/{x}/p?q#f"),
						4 => format!("{x}/p?q#f"),
						5 => format!("s://u@h:8/p?{x}#f"),
						_ => format!("s://u@h:8/p?q#{x}"),
					};
					let w = w.as_str();
					parse_event!(out, count, w, "IriRef", iref::iri::IriRef, |v: &iref::iri::IriRef| v.scheme().map(|x| x.as_str().to_string()), "sweep");
					if w.is_ascii() {
						parse_event!(out, count, w, "UriRef", iref::uri::UriRef, |v: &iref::uri::UriRef| v.scheme().map(|x| x.as_str().to_string()), "sweep");
					}
				}
				// authorities: the character in the user info, in the host, in both
				for a in [format!("{x}@h:8"), format!("u@{x}:8"), format!("{x}@{x}"), format!("{x}"), format!("u:{x}@h")] {
					let a = a.as_str();
					auth_event!(out, count, a, "iri", iri, Iri);
					if a.is_ascii() {
						auth_event!(out, count, a, "uri", uri, Uri);
					}
				}
			}
		}
	}
	for i in 0..n {
		let base = gen_ref(&mut r);
		let w: String = match i % 4 {
			0 => base,
			1 => mutate(&mut r, &base),
			2 => { let m = mutate(&mut r, &base); mutate(&mut r, &m) }
			_ => {
				// IPv6 / IPv4 shapes
				let groups = |r: &mut StdRng, k: usize| (0..k).map(|_| { let d = r.gen_range(1..=5); (0..d).map(|_| *b"0123456789abcdefABCDEFg".choose(r).unwrap() as char).collect::<String>() }).collect::<Vec<_>>().join(":");
				let left = r.gen_range(0..9);
				let right = r.gen_range(0..9);
				let host = match r.gen_range(0..4) {
					0 => format!("[{}::{}]", groups(&mut r, left), groups(&mut r, right)),
					1 => format!("[{}]", groups(&mut r, left)),
					2 => format!("{}.{}.{}.{}", r.gen_range(0..300), r.gen_range(0..300), r.gen_range(0..300), r.gen_range(0..300)),
					_ => format!("[{}::{}.{}.{}.{}]", groups(&mut r, left), r.gen_range(0..300), r.gen_range(0..300), r.gen_range(0..300), r.gen_range(0..300)),
				};
				format!("s://{}{}", host, if r.gen_bool(0.3) { ":80" } else { "" })
			}
		};
		let w = w.as_str();
		parse_event!(out, count, w, "IriRef", iref::iri::IriRef, |v: &iref::iri::IriRef| v.scheme().map(|x| x.as_str().to_string()));
		parse_event!(out, count, w, "Iri", iref::iri::Iri, |v: &iref::iri::Iri| Some(v.scheme().as_str().to_string()));
		if w.is_ascii() {
			parse_event!(out, count, w, "UriRef", iref::uri::UriRef, |v: &iref::uri::UriRef| v.scheme().map(|x| x.as_str().to_string()));
			parse_event!(out, count, w, "Uri", iref::uri::Uri, |v: &iref::uri::Uri| Some(v.scheme().as_str().to_string()));
		}
		// authorities from character classes (C03)
		{
			let ascii = r.gen_bool(0.5);
			let a = gen_class_authority(&mut r, ascii);
			let a = if i % 4 == 3 { mutate(&mut r, &a) } else { a };
			let a = a.as_str();
			auth_event!(out, count, a, "iri", iri, Iri);
			if a.is_ascii() {
				auth_event!(out, count, a, "uri", uri, Uri);
			}
		}
		// byte routes: UTF-8 gate (C01 / C14)
		if i % 5 == 0 {
			let mut bytes = w.as_bytes().to_vec();
			// lone bytes of every class of Unicode Table 3-7, and whole sequences: well-formed and
			// allowed (e-acute, U+E000 in a query), well-formed but not allowed (U+FFFF), overlong,
			// encoded surrogate, beyond U+10FFFF
			const SEQS: &[&[u8]] = &[&[0x80], &[0xBF], &[0xC0], &[0xC2], &[0xE0], &[0xED], &[0xF0], &[0xF4], &[0xF5], &[0xFF],
				&[0xC3, 0xA9], &[0xEE, 0x80, 0x80], &[0xEF, 0xBF, 0xBF], &[0xC0, 0xAF], &[0xE0, 0x80, 0xAF], &[0xED, 0xA0, 0x80],
				&[0xF4, 0x90, 0x80, 0x80], &[0xF0, 0x9F, 0x98, 0x80], &[0xE2, 0x82], &[0xF0, 0x9F, 0x98]];
			let k = r.gen_range(1..=2);
			for _ in 0..k {
				let seq = *SEQS.choose(&mut r).unwrap();
				// insert at a character boundary of the (so far) text, or anywhere
				let pos = if bytes.is_empty() { 0 } else { r.gen_range(0..=bytes.len()) };
				for (d, b) in seq.iter().enumerate() {
					bytes.insert(pos + d, *b);
				}
			}
			let r1 = guard(|| iref::iri::IriRefBuf::from_vec(bytes.clone()).map(|v| v.into_string()).map_err(|e| e.0));
			let (ok, payload_ok, panic) = match &r1 {
				Ok(Ok(s)) => (true, s.as_bytes() == bytes.as_slice(), false),
				Ok(Err(b)) => (false, b.as_slice() == bytes.as_slice(), false),
				Err(_) => (false, false, true),
			};
			let ev = json!({"ev": "parse_bytes", "ty": "IriRef", "bytes": bytes, "ok": ok, "kept": payload_ok, "panic": panic});
			writeln!(out, "{ev}").unwrap();
			count += 1;
		}
	}
	out.flush().unwrap();
	println!("{count}");
}

macro_rules! path_session {
	($out:ident, $n:ident, $r:ident, $pm:ident, $m:ident, $calls:expr) => {{
		for _ in 0..$calls {
			let k = $r.gen_range(0..100);
			let (op, arg, args): (&str, String, Vec<String>) = match k {
				0..=34 => ("push", pick(&mut $r, SEGS).to_string(), vec![]),
				35..=54 => ("sym_push", pick(&mut $r, SEGS).to_string(), vec![]),
				55..=64 => ("sym_append", String::new(), (0..$r.gen_range(1..4)).map(|_| pick(&mut $r, SEGS).to_string()).collect()),
				65..=84 => ("pop", String::new(), vec![]),
				85..=89 => ("clear", String::new(), vec![]),
				_ => ("normalize", String::new(), vec![]),
			};
			let Ok(seg) = iref::$m::Segment::new(arg.as_str()) else { continue };
			let segs: Vec<&iref::$m::Segment> = match args.iter().map(|s| iref::$m::Segment::new(s.as_str())).collect::<Result<Vec<_>, _>>() { Ok(v) => v, Err(_) => continue };
			pending(&json!({"ev": "call_path", "op": op, "arg": enc(&arg), "args": args.iter().map(|a| enc(a)).collect::<Vec<_>>(),
				"view": [], "panic": true, "msg": "process aborted in this call or in reading the handle afterwards"}));
			let res = guard(|| {
				match op {
					"push" => $pm.push(seg),
					"sym_push" => $pm.symbolic_push(seg),
					"sym_append" => $pm.symbolic_append(segs.iter().copied()),
					"pop" => { $pm.pop(); }
					"clear" => $pm.clear(),
					_ => $pm.normalize(),
				}
				$pm.as_str().to_string()
			});
			let mut ev = json!({"ev": "call_path", "op": op, "arg": enc(&arg), "args": args.iter().map(|a| enc(a)).collect::<Vec<_>>()});
			match res {
				Ok(v) => { ev["view"] = enc(&v); ev["panic"] = json!(false); writeln!($out, "{ev}").unwrap(); $n += 1; }
				Err(m) => { ev["view"] = json!([]); ev["panic"] = json!(true); ev["msg"] = json!(m); writeln!($out, "{ev}").unwrap(); $n += 1; break; }
			}
		}
	}};
}

macro_rules! auth_session {
	($out:ident, $n:ident, $r:ident, $buf:ident, $m:ident, $calls:expr) => {{
		let mut am = $buf.authority_mut().expect("authority");
		for _ in 0..$calls {
			let (op, arg): (&str, Option<String>) = match $r.gen_range(0..3) {
				0 => ("set_userinfo", if $r.gen_bool(0.7) { Some(pick(&mut $r, USERS).to_string()) } else { None }),
				1 => ("set_host", Some(pick(&mut $r, HOSTS).to_string())),
				_ => ("set_port", if $r.gen_bool(0.7) { Some(pick(&mut $r, PORTS).to_string()) } else { None }),
			};
			// an argument that is not a valid value of its type is skipped (nothing is called)
			let valid = match op {
				"set_userinfo" => arg.as_deref().map(|x| iref::$m::UserInfo::new(x).is_ok()).unwrap_or(true),
				"set_host" => iref::$m::Host::new(arg.as_deref().unwrap()).is_ok(),
				_ => arg.as_deref().map(|x| iref::$m::Port::new(x).is_ok()).unwrap_or(true),
			};
			if !valid {
				continue;
			}
			pending(&json!({"ev": "call_auth", "op": op, "arg": match &arg { Some(a) => enc(a), None => json!([-1]) },
				"view": [], "panic": true, "msg": "process aborted in this call or in reading the handle afterwards"}));
			let res = guard(|| {
				match op {
					"set_userinfo" => am.set_userinfo(arg.as_deref().map(|x| iref::$m::UserInfo::new(x).unwrap())),
					"set_host" => am.set_host(iref::$m::Host::new(arg.as_deref().unwrap()).unwrap()),
					_ => am.set_port(arg.as_deref().map(|x| iref::$m::Port::new(x).unwrap())),
				}
				am.as_authority().as_str().to_string()
			});
			let mut ev = json!({"ev": "call_auth", "op": op, "arg": match &arg { Some(a) => enc(a), None => json!([-1]) }});
			match res {
				Ok(v) => { ev["view"] = enc(&v); ev["panic"] = json!(false); writeln!($out, "{ev}").unwrap(); $n += 1; }
				Err(m) => { ev["view"] = json!([]); ev["panic"] = json!(true); ev["msg"] = json!(m); writeln!($out, "{ev}").unwrap(); $n += 1; break; }
			}
		}
	}};
}

/// drive sessions <seed> <n> <out>: sessions of 5-40 calls through ONE handle.
fn main_sessions(args: &[String]) {
	let seed: u64 = args[2].parse().expect("seed");
	let n: usize = args[3].parse().expect("n");
	let mut out = std::io::LineWriter::new(File::create(&args[4]).expect("create events"));
	let mut r = StdRng::seed_from_u64(seed);
	let mut count = 0u64;
	for i in 0..n {
		let calls = r.gen_range(5..40);
		let text = gen_ref(&mut r);
		let Ok(rf) = iref::iri::IriRef::new(text.as_str()) else { continue };
		let p = rf.parts();
		let o = |x: Option<&str>| match x { Some(s) => enc(s), None => json!([-1]) };
		if i % 3 == 0 {
			// stand-alone path buffer
			let abs0 = r.gen_bool(0.5);
			// "however obtained": one session in eight starts from PathBuf::default()
			let from_default = i % 24 == 0;
			let init = if from_default { String::new() } else { gen_path(&mut r, abs0) };
			let Ok(mut buf) = (if from_default { Ok(iref::iri::PathBuf::default()) } else { iref::iri::PathBuf::new(init.clone()) }) else { continue };
			writeln!(out, "{}", json!({"ev": "open_path", "fam": "iri", "kind": "path", "scheme": [-1], "authority": [-1], "query": [-1], "fragment": [-1], "init": enc(&init)})).unwrap();
			count += 1;
			{
				let mut pm = buf.as_path_mut();
				path_session!(out, count, r, pm, iri, calls);
			}
			writeln!(out, "{}", json!({"ev": "close_path", "text": enc(buf.as_str())})).unwrap();
			count += 1;
		} else if i % 3 == 1 || p.authority.is_none() {
			let full = p.scheme.is_some() && r.gen_bool(0.5);
			let open = json!({"ev": "open_path", "fam": "iri", "kind": if full { "full" } else { "ref" }, "scheme": o(p.scheme.map(|x| x.as_str())),
				"authority": o(p.authority.map(|x| x.as_str())), "query": o(p.query.map(|x| x.as_str())), "fragment": o(p.fragment.map(|x| x.as_str())), "init": enc(p.path.as_str())});
			writeln!(out, "{open}").unwrap();
			count += 1;
			if full {
				let mut buf = iref::iri::IriBuf::new(text.clone()).unwrap();
				{ let mut pm = buf.path_mut(); path_session!(out, count, r, pm, iri, calls); }
				writeln!(out, "{}", json!({"ev": "close_path", "text": match std::str::from_utf8(buf.as_bytes()) { Ok(s) => enc(s), Err(_) => json!([1114112]) }})).unwrap();
			} else {
				let mut buf = iref::iri::IriRefBuf::new(text.clone()).unwrap();
				{ let mut pm = buf.path_mut(); path_session!(out, count, r, pm, iri, calls); }
				writeln!(out, "{}", json!({"ev": "close_path", "text": match std::str::from_utf8(buf.as_bytes()) { Ok(s) => enc(s), Err(_) => json!([1114112]) }})).unwrap();
			}
			count += 1;
		} else {
			let full = p.scheme.is_some() && r.gen_bool(0.5);
			writeln!(out, "{}", json!({"ev": "open_auth", "fam": "iri", "kind": if full { "full" } else { "ref" }, "text": enc(&text)})).unwrap();
			count += 1;
			if full {
				let mut buf = iref::iri::IriBuf::new(text.clone()).unwrap();
				auth_session!(out, count, r, buf, iri, calls);
				writeln!(out, "{}", json!({"ev": "close_auth", "text": match std::str::from_utf8(buf.as_bytes()) { Ok(s) => enc(s), Err(_) => json!([1114112]) }})).unwrap();
			} else {
				let mut buf = iref::iri::IriRefBuf::new(text.clone()).unwrap();
				auth_session!(out, count, r, buf, iri, calls);
				writeln!(out, "{}", json!({"ev": "close_auth", "text": match std::str::from_utf8(buf.as_bytes()) { Ok(s) => enc(s), Err(_) => json!([1114112]) }})).unwrap();
			}
			count += 1;
		}
	}
	out.flush().unwrap();
	println!("{count}");
}

/// drive big <seed> <unused> <out>: very large inputs (beyond every inline buffer and beyond 64 KiB).
/// What is recorded is structural (lengths, offsets, counts, "unchanged"), so that TLC can judge it
/// without evaluating the specification on a megabyte of text.
fn main_big(args: &[String]) {
	use iref_verif_harness::alloc_count::allocs;
	let mut out = std::io::LineWriter::new(File::create(&args[4]).expect("create events"));
	let mut count = 0u64;
	let mut shapes: Vec<(usize, usize)> = vec![(20usize, 10usize), (17, 40), (700, 100), (300, 3), (10000, 100)];
	// segment COUNT sweep: 1..=70 and around 128, 256, 1024 one-character segments
	shapes.extend((1..=70usize).chain(126..=130).chain(254..=258).chain(1022..=1026).map(|n| (n, 1usize)));
	for (n, seglen) in shapes {
		let seg: String = "abcdefghij".chars().cycle().take(seglen).collect();
		let mut path = String::new();
		for _ in 0..n {
			path.push('/');
			path.push_str(&seg);
		}
		for fam in ["iri", "uri"] {
			// ---- a dot-free path is a fixed point of normalisation, whatever its size
			pending(&json!({"ev": "big_path", "fam": fam, "n": n, "seglen": seglen, "panic": true, "msg": "process aborted"}));
			let r = guard(|| {
				if fam == "iri" {
					let p = iref::iri::Path::new(path.as_str()).unwrap();
					let copy_same = p.normalized().as_str() == path;
					let mut b = p.to_owned();
					b.normalize();
					let inplace_same = b.as_str() == path;
					let nseg = p.normalized_segments().len();
					let a0 = allocs();
					let cnt = p.segments().count();
					let back = p.segments().rev().count();
					let _ = (p.first(), p.last(), p.file_name(), p.directory(), p.parent(), p.is_empty());
					let al = allocs() - a0;
					(copy_same, inplace_same, nseg, cnt, back, al)
				} else {
					let p = iref::uri::Path::new(path.as_str()).unwrap();
					let copy_same = p.normalized().as_str() == path;
					let mut b = p.to_owned();
					b.normalize();
					let inplace_same = b.as_str() == path;
					let nseg = p.normalized_segments().len();
					let a0 = allocs();
					let cnt = p.segments().count();
					let back = p.segments().rev().count();
					let _ = (p.first(), p.last(), p.file_name(), p.directory(), p.parent(), p.is_empty());
					let al = allocs() - a0;
					(copy_same, inplace_same, nseg, cnt, back, al)
				}
			});
			let ev = match r {
				Ok((c, i, ns, cnt, back, al)) => json!({"ev": "big_path", "fam": fam, "n": n, "seglen": seglen, "panic": false,
					"copy_unchanged": c, "inplace_unchanged": i, "normalized_len": ns, "count": cnt, "count_back": back, "allocs": al}),
				Err(m) => json!({"ev": "big_path", "fam": fam, "n": n, "seglen": seglen, "panic": true, "msg": m}),
			};
			writeln!(out, "{ev}").unwrap();
			count += 1;
			// ---- a large reference: borrowed parsing and access allocate nothing, ranges tile the input
			let text = format!("s://h{path}?q#f");
			pending(&json!({"ev": "big_ref", "fam": fam, "len": text.len(), "panic": true, "msg": "process aborted"}));
			let r = guard(|| {
				let tb = text.as_bytes();
				let off = |x: &[u8]| -> (usize, usize) { ((x.as_ptr() as usize).wrapping_sub(tb.as_ptr() as usize), x.len()) };
				if fam == "iri" {
					let a0 = allocs();
					let v = iref::iri::Iri::new(text.as_str()).unwrap();
					let p = v.parts();
					let r = (off(v.scheme().as_bytes()), off(v.authority().unwrap().as_bytes()), off(v.path().as_bytes()),
						off(v.query().unwrap().as_bytes()), off(v.fragment().unwrap().as_bytes()), off(p.path.as_bytes()), off(v.base().as_bytes()));
					(r, allocs() - a0)
				} else {
					let a0 = allocs();
					let v = iref::uri::Uri::new(text.as_str()).unwrap();
					let p = v.parts();
					let r = (off(v.scheme().as_bytes()), off(v.authority().unwrap().as_bytes()), off(v.path().as_bytes()),
						off(v.query().unwrap().as_bytes()), off(v.fragment().unwrap().as_bytes()), off(p.path.as_bytes()), off(v.base().as_bytes()));
					(r, allocs() - a0)
				}
			});
			let ev = match r {
				Ok(((s, a, p, q, f, pp, b), al)) => json!({"ev": "big_ref", "fam": fam, "len": text.len(), "plen": path.len(), "seglen": seglen, "panic": false,
					"scheme": [s.0, s.1], "authority": [a.0, a.1], "path": [p.0, p.1], "query": [q.0, q.1], "fragment": [f.0, f.1],
					"parts_path": [pp.0, pp.1], "base": [b.0, b.1], "allocs": al}),
				Err(m) => json!({"ev": "big_ref", "fam": fam, "len": text.len(), "panic": true, "msg": m}),
			};
			writeln!(out, "{ev}").unwrap();
			count += 1;
		}
	}
	// ---- big single edits (C05): a component of length `old` is replaced by a value of length `new`
	// ---- while what follows it is `tail` bytes per component; every component is one repeated letter
	for k in 0..5usize {
		for old in [1usize, 5000] {
			for new in [1usize, 6000, 70000] {
				for tail in [1usize, 5000] {
					let mut lens = [1usize, 1, 1, 1, 1];
					lens[k] = old;
					for later in (k + 1)..5 { lens[later] = tail; }
					let fill = |c: char, l: usize| -> String { std::iter::repeat(c).take(l).collect() };
					// path lengths count the leading "/"
					let text = format!("{}://{}/{}?{}#{}", fill('s', lens[0]), fill('h', lens[1]), fill('p', lens[2] - 1.min(lens[2])), fill('q', lens[3]), fill('f', lens[4]));
					let lens_in = [lens[0], lens[1], 1 + lens[2] - 1.min(lens[2]), lens[3], lens[4]];
					let arg = match k { 0 => fill('t', new), 1 => fill('g', new), 2 => format!("/{}", fill('r', new - 1)), 3 => fill('k', new), _ => fill('e', new) };
					for fam in ["iri", "uri"] {
						pending(&json!({"ev": "big_edit", "fam": fam, "k": k, "lens": lens_in, "new": new, "panic": true, "msg": "process aborted"}));
						macro_rules! body {
							($m:ident, $Buf:ident) => {{
								let mut b = iref::$m::$Buf::new(text.clone().into()).unwrap();
								match k {
									0 => b.set_scheme(iref::$m::Scheme::new(arg.as_str()).unwrap()),
									1 => b.set_authority(Some(iref::$m::Authority::new(arg.as_str()).unwrap())),
									2 => b.set_path(iref::$m::Path::new(arg.as_str()).unwrap()),
									3 => b.set_query(Some(iref::$m::Query::new(arg.as_str()).unwrap())),
									_ => b.set_fragment(Some(iref::$m::Fragment::new(arg.as_str()).unwrap())),
								}
								let bytes = b.as_bytes().to_vec();
								let reparsed = std::str::from_utf8(&bytes).ok().map(|t| iref::$m::$Buf::new(t.to_string().into()).is_ok()).unwrap_or(false);
								let uniform = |x: &[u8], c: u8| x.iter().all(|y| *y == c);
								let ok_fill = uniform(b.scheme().as_bytes(), if k == 0 { b't' } else { b's' })
									&& uniform(b.authority().map(|a| a.as_bytes()).unwrap_or(b"?"), if k == 1 { b'g' } else { b'h' })
									&& uniform(&b.path().as_bytes()[1.min(b.path().as_bytes().len())..], if k == 2 { b'r' } else { b'p' })
									&& uniform(b.query().map(|a| a.as_bytes()).unwrap_or(b"?"), if k == 3 { b'k' } else { b'q' })
									&& uniform(b.fragment().map(|a| a.as_bytes()).unwrap_or(b"?"), if k == 4 { b'e' } else { b'f' });
								(vec![b.scheme().len(), b.authority().map(|a| a.as_bytes().len()).unwrap_or(usize::MAX), b.path().as_bytes().len(),
									b.query().map(|a| a.as_bytes().len()).unwrap_or(usize::MAX), b.fragment().map(|a| a.as_bytes().len()).unwrap_or(usize::MAX)], bytes.len(), reparsed, ok_fill)
							}};
						}
						let r = guard(|| if fam == "iri" { body!(iri, IriBuf) } else { body!(uri, UriBuf) });
						let ev = match r {
							Ok((after, total, valid, fills)) => json!({"ev": "big_edit", "fam": fam, "k": k, "lens": lens_in, "new": new, "panic": false, "after": after, "total": total, "valid": valid, "fills": fills}),
							Err(m) => json!({"ev": "big_edit", "fam": fam, "k": k, "lens": lens_in, "new": new, "panic": true, "msg": m}),
						};
						writeln!(out, "{ev}").unwrap();
						count += 1;
					}
				}
			}
		}
	}
	// ---- runs of slashes (C02): scheme ":" and n times "/" - an empty authority as soon as n >= 2,
	// ---- then n - 2 bytes of path; and the same without scheme
	for n in (0..=70usize).chain(254..=258).chain(510..=514).chain(65534..=65538) {
		for with_scheme in [true, false] {
			let text = format!("{}{}", if with_scheme { "s:" } else { "" }, "/".repeat(n));
			for fam in ["iri", "uri"] {
				pending(&json!({"ev": "slashes", "fam": fam, "n": n, "scheme": with_scheme, "panic": true, "msg": "process aborted"}));
				macro_rules! body {
					($m:ident, $Ref:ident) => {{
						let r = iref::$m::$Ref::new(text.as_str()).unwrap();
						let p = r.parts();
						let l = |x: Option<usize>| x.map(|v| v as i64).unwrap_or(-1);
						(l(r.scheme().map(|s| s.len())), l(r.authority().map(|a| a.as_bytes().len())), r.path().as_bytes().len(), r.path().segments().count(),
							l(p.scheme.map(|s| s.len())), l(p.authority.map(|a| a.as_bytes().len())), p.path.as_bytes().len())
					}};
				}
				let r = guard(|| if fam == "iri" { body!(iri, IriRef) } else { body!(uri, UriRef) });
				let ev = match r {
					Ok((s, a, pl, segs, ps, pa, ppl)) => json!({"ev": "slashes", "fam": fam, "n": n, "scheme": with_scheme, "panic": false,
						"scheme_len": s, "authority_len": a, "path_len": pl, "segments": segs, "parts_scheme_len": ps, "parts_authority_len": pa, "parts_path_len": ppl}),
					Err(m) => json!({"ev": "slashes", "fam": fam, "n": n, "scheme": with_scheme, "panic": true, "msg": m}),
				};
				writeln!(out, "{ev}").unwrap();
				count += 1;
			}
		}
	}
	// ---- resolution with ONE very long segment (C06): in a reference with its own scheme, in a
	// ---- merged reference, and in the directory of the base
	for n in [100usize, 65535, 65536, 70000, 300000] {
		let big: String = std::iter::repeat('a').take(n).collect();
		for (case, base, reference) in [
			("own", "s://h/p/q".to_string(), format!("t:/x/../{big}/./z")),
			("merge", "s://h/p/q".to_string(), format!("../{big}/./z")),
			("basedir", format!("s://h/{big}/q"), "./z".to_string()),
		] {
			for fam in ["iri", "uri"] {
				pending(&json!({"ev": "big_resolve", "fam": fam, "case": case, "n": n, "panic": true, "msg": "process aborted"}));
				let r = guard(|| {
					let res: Vec<u8> = if fam == "iri" {
						iref::iri::IriRef::new(reference.as_str()).unwrap().resolved(iref::iri::Iri::new(base.as_str()).unwrap()).into_string().into_bytes()
					} else {
						iref::uri::UriRef::new(reference.as_str()).unwrap().resolved(iref::uri::Uri::new(base.as_str()).unwrap()).into_bytes()
					};
					let head: Vec<u32> = res.iter().take(8).map(|b| *b as u32).collect();
					let tail: Vec<u32> = res.iter().skip(res.len().saturating_sub(8)).map(|b| *b as u32).collect();
					(res.len(), head, tail, res.iter().filter(|b| **b == b'a').count())
				});
				let ev = match r {
					Ok((len, head, tail, na)) => json!({"ev": "big_resolve", "fam": fam, "case": case, "n": n, "panic": false, "len": len, "head": head, "tail": tail, "count_a": na}),
					Err(m) => json!({"ev": "big_resolve", "fam": fam, "case": case, "n": n, "panic": true, "msg": m}),
				};
				writeln!(out, "{ev}").unwrap();
				count += 1;
			}
		}
	}
	// ---- percent-decoded view of a very long segment (C19), before and after the reference went
	// ---- through resolution (which leaves a reference with a scheme and no dot segment as it is)
	for n in (0..=70usize).chain([127, 128, 129, 255, 256, 257, 500, 30000, 70000, 200000]) {
		let text = format!("data:text/plain,{}", "%C3%A9".repeat(n));
		for fam in ["iri", "uri"] {
			pending(&json!({"ev": "big_pct", "fam": fam, "n": n, "panic": true, "msg": "process aborted"}));
			macro_rules! body {
				($m:ident, $Ref:ident, $Full:ident) => {{
					let r = iref::$m::$Ref::new(text.as_str()).unwrap();
					let base = iref::$m::$Full::new("s://h/x/y").unwrap();
					let res = r.resolved(base);
					let unchanged = res.as_str() == text;
					let seg = res.path().segments().next_back().unwrap();
					let p = seg.as_pct_str();
					let direct = r.path().segments().next_back().unwrap().as_pct_str().bytes().count();
					(unchanged, p.bytes().count(), p.chars().count(), p.len(), p.decode().chars().count(), direct)
				}};
			}
			let r = guard(|| if fam == "iri" { body!(iri, IriRef, Iri) } else { body!(uri, UriRef, Uri) });
			let ev = match r {
				Ok((u, b, c, l, d, direct)) => json!({"ev": "big_pct", "fam": fam, "n": n, "panic": false, "resolved_unchanged": u,
					"bytes": b, "chars": c, "len": l, "decoded": d, "direct_bytes": direct}),
				Err(m) => json!({"ev": "big_pct", "fam": fam, "n": n, "panic": true, "msg": m}),
			};
			writeln!(out, "{ev}").unwrap();
			count += 1;
		}
	}
	println!("{count}");
}

fn main() {
	let args: Vec<String> = std::env::args().collect();
	install_panic_hook();
	if args.len() >= 5 && args[1] == "big" {
		return main_big(&args);
	}
	if args.len() >= 5 && args[1] == "sessions" {
		return main_sessions(&args);
	}
	if args.len() >= 5 && args[1] == "parse" {
		return main_parse(&args);
	}
	if args.len() < 5 {
		eprintln!("usage: drive <seed> <histories> <steps> <events.ndjson> | drive parse <seed> <n> <events.ndjson>");
		std::process::exit(2);
	}
	let seed: u64 = args[1].parse().expect("seed");
	let histories: usize = args[2].parse().expect("histories");
	let steps: usize = args[3].parse().expect("steps");
	let mut out = std::io::LineWriter::new(File::create(&args[4]).expect("create events"));
	let mut r = StdRng::seed_from_u64(seed);
	let mut n_events = 0u64;
	// ---- scripted single calls: a component of length la is replaced by a value of length lb, with
	// ---- every other component present (something always follows what is replaced)
	let mut scripted: Vec<(String, &'static str, Option<String>)> = Vec::new();
	{
		const LENS: &[usize] = &[0, 1, 2, 7, 8, 15, 16, 31, 32, 63, 64, 65];
		let fill = |c: char, l: usize| -> String { std::iter::repeat(c).take(l).collect() };
		for &la in LENS {
			for &lb in LENS {
				scripted.push((format!("s{}://u@h:8/p/seg?q#f", fill('a', la)), "set_scheme", Some(format!("t{}", fill('b', lb)))));
				scripted.push((format!("s://{}@{}:8/p/seg?q#f", fill('u', la), fill('h', la)), "set_authority", Some(format!("{}@g:{}", fill('v', lb), fill('9', lb % 6)))));
				scripted.push((format!("s://u@h:8/{}/seg?q#f", fill('p', la)), "set_path", Some(format!("/{}/x", fill('r', lb)))));
				scripted.push((format!("s://u@h:8/p/seg?{}#f", fill('q', la)), "set_query", Some(fill('k', lb))));
				scripted.push((format!("s://u@h:8/p/seg?q#{}", fill('f', la)), "set_fragment", Some(fill('g', lb))));
				scripted.push((format!("s://{}@h:8/p/seg?q#f", fill('u', la)), "set_userinfo", Some(fill('w', lb))));
				scripted.push((format!("s://u@{}:8/p/seg?q#f", fill('h', la)), "set_host", Some(fill('i', lb))));
				scripted.push((format!("s://u@h:{}/p/seg?q#f", fill('8', la)), "set_port", Some(fill('7', lb))));
				scripted.push((format!("s://u@h:8/p/{}?q#f", fill('s', la)), "push", Some(fill('t', lb))));
				scripted.push((format!("s://u@h:8/p/{}?q#f", fill('s', la)), "pop", Some(String::new())));
			}
		}
	}
	// ---- the shield decisions: every character that could be mistaken for a delimiter (and the
	// ---- real ones, escaped and not) in a FIRST segment, in the four situations where a shield is
	// ---- or is not due: set_path / push on a reference without scheme and authority, set_scheme(None),
	// ---- set_authority(None); and the same behind a scheme (no shield wanted)
	{
		const FIRSTS: &[char] = &['\u{a0}', '\u{e9}', '\u{ff}', '\u{3000}', '\u{d7ff}', '\u{f900}', '\u{feff}', '\u{ffef}', '\u{10000}', '\u{1f600}', '\u{efffd}',
		// characters that ALIAS a delimiter (a UTF-8 byte = delimiter | 0x80, or the low byte of the code point = delimiter) and bidi marks
		'\u{ba}', '\u{af}', '\u{bf}', '\u{a3}', '\u{a5}', '\u{ae}', '\u{6c0}', '\u{740}', '\u{fa}', '\u{43a}', '\u{42f}', '\u{43f}', '\u{423}', '\u{440}', '\u{45b}', '\u{45d}', '\u{425}', '\u{42e}', '\u{4e3a}', '\u{202f}', '\u{672f}', '\u{200e}', '\u{200f}', '\u{202a}', '\u{202e}', '\u{2066}', '\u{2069}'];
		let mut firsts: Vec<String> = vec!["a:b".into(), "1:b".into(), ":".into(), "a:".into(), "%3A".into(), "%3a:b".into(), "%41:b".into(), "%41%42:b".into(), "_:b".into(), "~u:v".into(), "@:x".into(), "a".into(), "".into(), "..".into(), ".".into()];
		for &c in FIRSTS {
			firsts.push(format!("{c}"));
			firsts.push(format!("{c}a:b"));
			firsts.push(format!("a{c}:b"));
			firsts.push(format!("a:{c}"));
		}
		for x in &firsts {
			scripted.push(("?q#f".to_string(), "set_path", Some(format!("{x}/y"))));
			scripted.push(("?q#f".to_string(), "push", Some(x.clone())));
			scripted.push((format!("s:{x}/y?q"), "set_scheme", None));
			scripted.push((format!("//h/{x}/y?q"), "set_authority", None));
			scripted.push((format!("//h//{x}/y?q"), "set_authority", None));
			scripted.push(("s:?q".to_string(), "set_path", Some(format!("{x}/y"))));
			scripted.push(("//h?q".to_string(), "set_path", Some(format!("{x}/y"))));
		}
	}
	for h in 0..(histories + scripted.len()) {
		let script = if h >= histories { Some(scripted[h - histories].clone()) } else { None };
		// initial buffer: parsed, default, or built from a scheme
		let mut text = match &script {
			Some(s) => s.0.clone(),
			None => match h % 7 {
				0 => String::new(),
				1 => format!("{}:", pick(&mut r, SCHEMES)),
				_ => gen_ref(&mut r),
			},
		};
		let use_uri = text.is_ascii() && r.gen_bool(0.5);
		for _ in 0..(if script.is_some() { 1 } else { steps }) {
			let ascii = text.is_ascii();
			let fam = if use_uri && ascii { "uri" } else { "iri" };
			// kind: a text with a scheme may be held as a full URI/IRI or as a reference
			let Ok(as_ref) = iref::iri::IriRef::new(text.as_str()) else { break };
			let has_scheme = as_ref.scheme().is_some();
			let has_auth = as_ref.authority().is_some();
			let full = has_scheme && r.gen_bool(0.5);
			let (op, arg) = match &script { Some(s) => (s.1, s.2.clone()), None => gen_op(&mut r, full, has_auth) };
			if fam == "uri" && !arg.as_deref().unwrap_or("").is_ascii() {
				continue;
			}
			let pre = text.clone();
			pending(&json!({"ev": "edit", "fam": fam, "kind": if full { "full" } else { "ref" }, "pre": enc(&pre), "op": op,
				"arg": match &arg { Some(a) => enc(a), None => json!([-1]) }, "panic": true, "post": [], "msg": "process aborted in this call"}));
			let route = r.gen_range(0..6);
			let mut origin = "new";
			let mut origin_text: Option<Vec<u8>> = None;
			let result: Result<Option<Vec<u8>>, String> = if fam == "uri" {
				if full {
					let Some((mut buf, how)) = obtain!(full, uri, pre.as_str(), route) else { break };
					origin = how;
					origin_text = Some(buf.as_bytes().to_vec());
					guard(|| if apply!(buf, uri, op, arg, true, Uri) { Some(buf.as_bytes().to_vec()) } else { None })
				} else {
					let Some((mut buf, how)) = obtain!(reference, uri, pre.as_str(), route) else { break };
					origin = how;
					origin_text = Some(buf.as_bytes().to_vec());
					guard(|| {
						if op == "resolve" {
							match iref::uri::Uri::new(arg.as_deref().unwrap()) { Ok(b) => { buf.resolve(b); Some(buf.as_bytes().to_vec()) } Err(_) => None }
						} else if apply!(buf, uri, op, arg, false, Uri) { Some(buf.as_bytes().to_vec()) } else { None }
					})
				}
			} else if full {
				let Some((mut buf, how)) = obtain!(full, iri, pre.as_str(), route) else { break };
				origin = how;
				origin_text = Some(buf.as_bytes().to_vec());
				guard(|| if apply!(buf, iri, op, arg, true, Iri) { Some(buf.as_bytes().to_vec()) } else { None })
			} else {
				let Some((mut buf, how)) = obtain!(reference, iri, pre.as_str(), route) else { break };
				origin = how;
				origin_text = Some(buf.as_bytes().to_vec());
				guard(|| {
					if op == "resolve" {
						match iref::iri::Iri::new(arg.as_deref().unwrap()) { Ok(b) => { buf.resolve(b); Some(buf.as_bytes().to_vec()) } Err(_) => None }
					} else if apply!(buf, iri, op, arg, false, Iri) { Some(buf.as_bytes().to_vec()) } else { None }
				})
			};
			if origin != "new" {
				// the route must hand over exactly the text (C04 "however obtained", C13 conversions)
				let t = origin_text.unwrap_or_default();
				let text_cps = match String::from_utf8(t) { Ok(s) => enc(&s), Err(e) => serde_json::Value::Array(e.into_bytes().iter().map(|b| json!(0x110000u32 + *b as u32)).collect()) };
				writeln!(out, "{}", json!({"ev": "origin", "fam": fam, "kind": if full { "full" } else { "ref" }, "how": origin, "pre": enc(&pre), "text": text_cps, "panic": false})).unwrap();
				n_events += 1;
			}
			let mut ev = json!({"ev": "edit", "fam": fam, "kind": if full { "full" } else { "ref" }, "origin": origin, "pre": enc(&pre), "op": op,
				"arg": match &arg { Some(a) => enc(a), None => json!([-1]) }});
			match result {
				Ok(None) => continue, // invalid argument for its type, or not applicable: nothing was called
				Err(m) => {
					ev["panic"] = json!(true);
					ev["msg"] = json!(m);
					ev["post"] = json!([]);
					writeln!(out, "{ev}").unwrap();
					n_events += 1;
					break;
				}
				Ok(Some(bytes)) => {
					ev["panic"] = json!(false);
					match String::from_utf8(bytes) {
						Ok(post) => {
							ev["post"] = enc(&post);
							writeln!(out, "{ev}").unwrap();
							n_events += 1;
							text = post;
						}
						Err(e) => {
							// not even UTF-8: record as bytes mapped to code points (cannot be a member of any language > 0x7F ...)
							ev["post"] = serde_json::Value::Array(e.into_bytes().iter().map(|b| json!(0x110000u32 + *b as u32)).collect());
							writeln!(out, "{ev}").unwrap();
							n_events += 1;
							break;
						}
					}
				}
			}
		}
	}
	out.flush().unwrap();
	println!("{n_events}");
}
