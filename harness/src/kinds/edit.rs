//! k = "edit": one edge of the editor state graph.
//! {"fam", "kind": "ref"|"full", "pre": text, "op": name, "arg": text|[-1], "post": [admissible texts]}
//!
//! C04: no panic, the buffer stays UTF-8 and re-parses as the same type.
//! C05 (setters) / C10 (path ops) / C11 (authority ops) / C06 (resolve): text in `post`.

use crate::common::*;
use serde_json::{json, Value};

fn props_for(op: &str) -> &'static [&'static str] {
	match op {
		"set_scheme" | "set_authority" | "set_path" | "set_query" | "set_fragment" => &["C05"],
		"push" | "pop" | "clear" | "sym_push" | "normalize" => &["C10"],
		"set_userinfo" | "set_host" | "set_port" => &["C11"],
		"resolve" => &["C06"],
		_ => &["C04"],
	}
}

macro_rules! apply {
	($f:ident, $buf:ident, $m:ident, $op:ident, $arg:ident, $full:tt, $Ri:ident) => {{
		use iref::$m::*;
		match $op {
			"set_scheme" => {
				let s = $arg.as_deref().map(|x| Scheme::new(x).expect("scheme"));
				apply!(@scheme $full, $buf, s);
			}
			"set_authority" => {
				let a = $arg.as_deref().map(|x| Authority::new(x).expect("authority"));
				$buf.set_authority(a);
			}
			"set_path" => $buf.set_path(Path::new($arg.as_deref().unwrap()).expect("path")),
			"set_query" => {
				let q = $arg.as_deref().map(|x| Query::new(x).expect("query"));
				$buf.set_query(q);
			}
			"set_fragment" => {
				let q = $arg.as_deref().map(|x| Fragment::new(x).expect("fragment"));
				$buf.set_fragment(q);
			}
			"push" => $buf.path_mut().push(Segment::new($arg.as_deref().unwrap()).expect("segment")),
			"sym_push" => { $buf.path_mut().symbolic_push(Segment::new($arg.as_deref().unwrap()).expect("segment")); }
			"pop" => { $buf.path_mut().pop(); }
			"clear" => $buf.path_mut().clear(),
			"normalize" => $buf.path_mut().normalize(),
			"set_userinfo" => {
				let u = $arg.as_deref().map(|x| UserInfo::new(x).expect("userinfo"));
				$buf.authority_mut().expect("authority").set_userinfo(u);
			}
			"set_host" => $buf.authority_mut().expect("authority").set_host(Host::new($arg.as_deref().unwrap()).expect("host")),
			"set_port" => {
				let p = $arg.as_deref().map(|x| Port::new(x).expect("port"));
				$buf.authority_mut().expect("authority").set_port(p);
			}
			other => panic!("harness: unknown edit op {other}"),
		}
	}};
	(@scheme true, $buf:ident, $s:ident) => { $buf.set_scheme($s.expect("full types need a scheme")) };
	(@scheme false, $buf:ident, $s:ident) => { $buf.set_scheme($s) };
}

macro_rules! fam {
	($f:ident, $case:ident, $m:ident, $Ri:ident, $RiBuf:ident, $RiRef:ident, $RiRefBuf:ident, $tag:expr, $results:ident) => {{
		let tag: &str = $tag;
		let pre = text(&$case["pre"]);
		let op = $case["op"].as_str().unwrap();
		let arg: Option<String> = opt_text(&$case["arg"]);
		let post = &$case["post"];
		let props = props_for(op);
		let what = format!("{tag}.{op}");
		let observed: Option<String> = if $case["kind"].as_str() == Some("full") {
			let Ok(mut buf) = iref::$m::$RiBuf::new(pre.clone().into()) else {
				$f.ok(&["C01"], &format!("{tag}.pre"), false, || json!(pre));
				return;
			};
			let r = guard(|| { apply!($f, buf, $m, op, arg, true, $Ri); });
			match r {
				Err(m) => { $f.panic(&["C04"], &what, &m); $f.panic(props, &what, &m); None }
				Ok(()) => {
					let bytes = buf.as_bytes().to_vec();
					match String::from_utf8(bytes) {
						Err(_) => { $f.ok(&["C04"], &format!("{what}.utf8"), false, || json!(null)); None }
						Ok(s) => {
							$f.ok(&["C04"], &format!("{what}.reparse"), iref::$m::$Ri::new(s.as_str()).is_ok(), || json!(s));
							Some(s)
						}
					}
				}
			}
		} else {
			let Ok(mut buf) = iref::$m::$RiRefBuf::new(pre.clone().into()) else {
				$f.ok(&["C01"], &format!("{tag}.pre"), false, || json!(pre));
				return;
			};
			let r = guard(|| {
				if op == "resolve" {
					let b = arg.clone().unwrap();
					let base = iref::$m::$Ri::new(b.as_str()).expect("base");
					buf.resolve(base);
				} else {
					apply!($f, buf, $m, op, arg, false, $Ri);
				}
			});
			match r {
				Err(m) => { $f.panic(&["C04"], &what, &m); $f.panic(props, &what, &m); None }
				Ok(()) => {
					let bytes = buf.as_bytes().to_vec();
					match String::from_utf8(bytes) {
						Err(_) => { $f.ok(&["C04"], &format!("{what}.utf8"), false, || json!(null)); None }
						Ok(s) => {
							$f.ok(&["C04"], &format!("{what}.reparse"), iref::$m::$RiRef::new(s.as_str()).is_ok(), || json!(s));
							Some(s)
						}
					}
				}
			}
		};
		if let Some(s) = observed {
			$f.member(props, &what, &s, post);
			$results.push(s);
		}
	}};
}

pub fn run(case: &Value, f: &mut Fails) {
	let mut results: Vec<String> = Vec::new();
	fam!(f, case, iri, Iri, IriBuf, IriRef, IriRefBuf, "iri", results);
	if case["fam"].as_str() == Some("both") {
		fam!(f, case, uri, Uri, UriBuf, UriRef, UriRefBuf, "uri", results);
		if results.len() == 2 {
			f.eq(&["C13"], "families_agree", results[0].as_str(), results[1].as_str());
		}
	}
}
