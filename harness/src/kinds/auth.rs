//! k = "auth": a valid stand-alone authority with its RFC 3986 section 3.2 decomposition.
//! {"fam": "both"|"iri", "w": text, "a": {userinfo, host, port}, "aoff": {...}}

use crate::alloc_count::allocs;
use crate::common::*;
use serde_json::{json, Value};

const C03: &[&str] = &["C03"];
const C20: &[&str] = &["C20"];
const C01: &[&str] = &["C01"];

fn off_of(outer: &[u8], inner: Option<&[u8]>) -> Value {
	match inner {
		None => json!([-1, -1]),
		Some(i) => match ptr_off(outer, i) {
			Some(o) => json!([o, i.len()]),
			None => json!(["external", i.len()]),
		},
	}
}

macro_rules! fam {
	($f:ident, $case:ident, $s:ident, $m:ident, $tag:expr) => {{
		let tag: &str = $tag;
		let ea = &$case["a"];
		let eo = &$case["aoff"];
		let a0 = allocs();
		let r = iref::$m::Authority::new($s);
		let d = allocs() - a0;
		$f.eq(C20, &format!("{tag}.new.allocs"), d, 0);
		match r {
			Err(_) => $f.ok(C01, &format!("{tag}.new"), false, || json!("a specification-valid authority is rejected")),
			Ok(a) => {
				let ab = a.as_bytes();
				for view in ["borrowed", "owned"] {
					let owned = a.to_owned();
					let (a, ab): (&iref::$m::Authority, &[u8]) = if view == "owned" { (&owned, owned.as_bytes()) } else { (a, ab) };
					let tag = format!("{tag}.{view}");
					let a0 = allocs();
					let ui = a.user_info();
					let host = a.host();
					let port = a.port();
					let parts = a.parts();
					let d = allocs() - a0;
					$f.eq(C20, &format!("{tag}.allocs"), d, 0);
					$f.eq(C03, &format!("{tag}.user_info"), enc_opt(ui.map(|x| x.as_str())), ea["userinfo"].clone());
					$f.eq(C03, &format!("{tag}.host"), enc(host.as_str()), ea["host"].clone());
					$f.eq(C03, &format!("{tag}.port"), enc_opt(port.map(|x| x.as_str())), ea["port"].clone());
					$f.eq(C03, &format!("{tag}.parts.user_info"), enc_opt(parts.user_info.map(|x| x.as_str())), ea["userinfo"].clone());
					$f.eq(C03, &format!("{tag}.parts.host"), enc(parts.host.as_str()), ea["host"].clone());
					$f.eq(C03, &format!("{tag}.parts.port"), enc_opt(parts.port.map(|x| x.as_str())), ea["port"].clone());
					if let Some(u) = ui {
						$f.ok(C03, &format!("{tag}.user_info.valid"), iref::$m::UserInfo::new(u.as_str()).is_ok(), || json!(u.as_str()));
					}
					$f.ok(C03, &format!("{tag}.host.valid"), iref::$m::Host::new(host.as_str()).is_ok(), || json!(host.as_str()));
					if let Some(p) = port {
						$f.ok(C03, &format!("{tag}.port.valid"), iref::$m::Port::new(p.as_str()).is_ok(), || json!(p.as_str()));
					}
					let mut re = String::new();
					if let Some(u) = parts.user_info {
						re.push_str(u.as_str());
						re.push('@');
					}
					re.push_str(parts.host.as_str());
					if let Some(p) = parts.port {
						re.push(':');
						re.push_str(p.as_str());
					}
					$f.eq(C03, &format!("{tag}.reassemble"), re.as_str(), $s);
					$f.eq(C20, &format!("{tag}.user_info.off"), off_of(ab, ui.map(|x| x.as_bytes())), eo["userinfo"].clone());
					$f.eq(C20, &format!("{tag}.host.off"), off_of(ab, Some(host.as_bytes())), eo["host"].clone());
					$f.eq(C20, &format!("{tag}.port.off"), off_of(ab, port.map(|x| x.as_bytes())), eo["port"].clone());
				}
			}
		}
	}};
}

pub fn run(case: &Value, f: &mut Fails) {
	let s_owned = text(&case["w"]);
	let s = s_owned.as_str();
	fam!(f, case, s, iri, "iri");
	if case["fam"].as_str() == Some("both") {
		fam!(f, case, s, uri, "uri");
	}
}
