//! k = "pct": {"ty", "w", "bytes": decoded octets, "utf8": well-formed?, "chars": decoded scalars} (C19)

use crate::common::*;
use serde_json::{json, Value};

const C19: &[&str] = &["C19"];

macro_rules! ty {
	($f:ident, $case:ident, $s:ident, $T:ty, $TBuf:ty) => {{
		let Ok(v) = <$T>::new($s) else {
			$f.ok(&["C01"], "pct.new", false, || json!("a specification-valid component is rejected"));
			return;
		};
		let exp_bytes = bytes_of(&$case["bytes"]);
		let wf = $case["utf8"].as_bool().unwrap();
		// obtaining the view never panics
		let Some(p) = $f.run(C19, "as_pct_str", || v.as_pct_str()) else { return };
		$f.eq(C19, "as_pct_str.text", p.as_str(), $s);
		// octets: always defined
		if let Some(b) = $f.run(C19, "bytes", || p.bytes().collect::<Vec<u8>>()) {
			$f.eq(C19, "bytes", b, exp_bytes.clone());
		}
		// through Deref as well
		if let Some(b) = $f.run(C19, "deref.bytes", || (**v).bytes().collect::<Vec<u8>>()) {
			$f.eq(C19, "deref.bytes", b, exp_bytes.clone());
		}
		let chars = $f.run(C19, "chars", || p.chars().collect::<String>());
		let len = $f.run(C19, "len", || p.len());
		let dec = $f.run(C19, "decode", || p.decode());
		if wf {
			let exp = text(&$case["chars"]);
			if let Some(c) = chars {
				$f.eq(C19, "chars", c.as_str(), exp.as_str());
			}
			if let Some(l) = len {
				$f.eq(C19, "len", l, exp.chars().count());
			}
			if let Some(d) = dec {
				$f.eq(C19, "decode", d.as_str(), exp.as_str());
			}
			if let Some(e) = $f.run(C19, "eq_str", || *p == *exp.as_str()) {
				$f.eq(C19, "eq_str", e, true);
			}
			// a different plain text is not equal
			let other = format!("{exp}x");
			if let Some(e) = $f.run(C19, "ne_str", || *p == *other.as_str()) {
				$f.eq(C19, "ne_str", e, false);
			}
		} else {
			// ill-formed octets are never equated with well-formed text
			let lossy = String::from_utf8_lossy(&exp_bytes).to_string();
			for cand in [lossy.as_str(), ".", "", "a"] {
				if let Some(e) = $f.run(C19, "illformed.eq_str", || *p == *cand) {
					$f.eq(C19, "illformed.eq_str", e, false);
				}
			}
		}
		// the owned conversion keeps the text
		let owned: $TBuf = v.to_owned();
		if let Some(ps) = $f.run(C19, "into_pct_string", || owned.into_pct_string()) {
			$f.eq(C19, "into_pct_string.text", ps.as_str(), $s);
			if let Some(b) = $f.run(C19, "into_pct_string.bytes", || ps.bytes().collect::<Vec<u8>>()) {
				$f.eq(C19, "into_pct_string.bytes", b, exp_bytes.clone());
			}
		}
	}};
	(noown $f:ident, $case:ident, $s:ident, $T:ty) => {{
		let Ok(v) = <$T>::new($s) else {
			$f.ok(&["C01"], "pct.new", false, || json!("a specification-valid component is rejected"));
			return;
		};
		let exp_bytes = bytes_of(&$case["bytes"]);
		let wf = $case["utf8"].as_bool().unwrap();
		let Some(p) = $f.run(C19, "as_pct_str", || v.as_pct_str()) else { return };
		$f.eq(C19, "as_pct_str.text", p.as_str(), $s);
		if let Some(b) = $f.run(C19, "bytes", || p.bytes().collect::<Vec<u8>>()) {
			$f.eq(C19, "bytes", b, exp_bytes.clone());
		}
		let chars = $f.run(C19, "chars", || p.chars().collect::<String>());
		let len = $f.run(C19, "len", || p.len());
		let dec = $f.run(C19, "decode", || p.decode());
		if wf {
			let exp = text(&$case["chars"]);
			if let Some(c) = chars {
				$f.eq(C19, "chars", c.as_str(), exp.as_str());
			}
			if let Some(l) = len {
				$f.eq(C19, "len", l, exp.chars().count());
			}
			if let Some(d) = dec {
				$f.eq(C19, "decode", d.as_str(), exp.as_str());
			}
			if let Some(e) = $f.run(C19, "eq_str", || *p == *exp.as_str()) {
				$f.eq(C19, "eq_str", e, true);
			}
		} else {
			let lossy = String::from_utf8_lossy(&exp_bytes).to_string();
			for cand in [lossy.as_str(), ".", "", "a"] {
				if let Some(e) = $f.run(C19, "illformed.eq_str", || *p == *cand) {
					$f.eq(C19, "illformed.eq_str", e, false);
				}
			}
		}
	}};
}

/// The same component reached through the accessors of an enclosing URI/IRI (the property speaks
/// of the components *of a valid URI/IRI*): `$get` maps the parsed reference to `Option<&Component>`.
macro_rules! embedded {
	($f:ident, $case:ident, $s:ident, $tag:expr, $Ref:ty, $whole:expr, |$r:ident| $get:expr) => {{
		let whole: String = $whole;
		match <$Ref>::new(whole.as_str()) {
			Err(_) => $f.ok(&["C01"], concat!($tag, ".enclosing.new"), false, || json!(whole.clone())),
			Ok($r) => {
				let got = $f.run(C19, concat!($tag, ".accessor"), || $get);
				if let Some(got) = got {
					match got {
						None => $f.ok(&["C02", "C19"], concat!($tag, ".present"), false, || json!(whole.clone())),
						Some(v) => {
							$f.eq(&["C02", "C19"], concat!($tag, ".text"), v.as_str(), $s);
							let exp_bytes = bytes_of(&$case["bytes"]);
							if let Some(p) = $f.run(C19, concat!($tag, ".as_pct_str"), || v.as_pct_str()) {
								if let Some(b) = $f.run(C19, concat!($tag, ".bytes"), || p.bytes().collect::<Vec<u8>>()) {
									$f.eq(C19, concat!($tag, ".bytes"), b, exp_bytes.clone());
								}
								let dec = $f.run(C19, concat!($tag, ".decode"), || p.decode());
								let len = $f.run(C19, concat!($tag, ".len"), || p.len());
								if $case["utf8"].as_bool().unwrap() {
									let exp = text(&$case["chars"]);
									if let Some(d) = dec {
										$f.eq(C19, concat!($tag, ".decode"), d.as_str(), exp.as_str());
									}
									if let Some(l) = len {
										$f.eq(C19, concat!($tag, ".len"), l, exp.chars().count());
									}
								}
							}
						}
					}
				}
			}
		}
	}};
}

pub fn run(case: &Value, f: &mut Fails) {
	let s_owned = text(&case["w"]);
	let s = s_owned.as_str();
	use iref::{iri, uri};
	// inside a reference: s://{ui}@h/  s://{host}/  s:/a/{seg}/b (second segment)  s:?{q}  s:#{f}
	match case["ty"].as_str().unwrap() {
		"UUserInfo" => embedded!(f, case, s, "in_uri.user_info", uri::Uri, format!("s://{s}@h/p"), |r| r.authority().map(|a| a.user_info()).unwrap_or(None)),
		"IUserInfo" => embedded!(f, case, s, "in_iri.user_info", iri::Iri, format!("s://{s}@h/p"), |r| r.authority().map(|a| a.user_info()).unwrap_or(None)),
		"UHost" => embedded!(f, case, s, "in_uri.host", uri::Uri, format!("s://u@{s}:8/p"), |r| r.authority().map(|a| a.host())),
		"IHost" => embedded!(f, case, s, "in_iri.host", iri::Iri, format!("s://u@{s}:8/p"), |r| r.authority().map(|a| a.host())),
		"USegment" => {
			embedded!(f, case, s, "in_uri.segment", uri::Uri, format!("s:/a/{s}/b"), |r| r.path().segments().nth(1));
			embedded!(f, case, s, "in_uri.segment_back", uri::UriRef, format!("a/{s}?q"), |r| r.path().segments().next_back());
		}
		"ISegment" => {
			embedded!(f, case, s, "in_iri.segment", iri::Iri, format!("s:/a/{s}/b"), |r| r.path().segments().nth(1));
			embedded!(f, case, s, "in_iri.segment_back", iri::IriRef, format!("a/{s}?q"), |r| r.path().segments().next_back());
		}
		"UQuery" => embedded!(f, case, s, "in_uri.query", uri::Uri, format!("s://h/p?{s}#f"), |r| r.query()),
		"IQuery" => embedded!(f, case, s, "in_iri.query", iri::Iri, format!("s://h/p?{s}#f"), |r| r.query()),
		"UFragment" => embedded!(f, case, s, "in_uri.fragment", uri::Uri, format!("s://h/p?q#{s}"), |r| r.fragment()),
		"IFragment" => embedded!(f, case, s, "in_iri.fragment", iri::Iri, format!("s://h/p?q#{s}"), |r| r.fragment()),
		_ => {}
	}
	match case["ty"].as_str().unwrap() {
		"UUserInfo" => ty!(f, case, s, uri::UserInfo, uri::UserInfoBuf),
		"UHost" => ty!(f, case, s, uri::Host, uri::HostBuf),
		"USegment" => ty!(noown f, case, s, uri::Segment),
		"UQuery" => ty!(f, case, s, uri::Query, uri::QueryBuf),
		"UFragment" => ty!(f, case, s, uri::Fragment, uri::FragmentBuf),
		"IUserInfo" => ty!(f, case, s, iri::UserInfo, iri::UserInfoBuf),
		"IHost" => ty!(f, case, s, iri::Host, iri::HostBuf),
		"ISegment" => ty!(noown f, case, s, iri::Segment),
		"IQuery" => ty!(f, case, s, iri::Query, iri::QueryBuf),
		"IFragment" => ty!(f, case, s, iri::Fragment, iri::FragmentBuf),
		other => panic!("harness: pct case of unknown type {other}"),
	}
}
