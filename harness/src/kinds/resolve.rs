//! k = "resolve": {"fam", "base": text, "ref": text, "post": [admissible result texts]} (C06)

use crate::common::*;
use serde_json::{json, Value};

const C06: &[&str] = &["C06"];
const C13: &[&str] = &["C06", "C13"];

macro_rules! fam {
	($f:ident, $case:ident, $b:ident, $r:ident, $m:ident, $Ri:ident, $RiBuf:ident, $RiRef:ident, $RiRefBuf:ident, $tag:expr, $results:ident) => {{
		let tag: &str = $tag;
		let (Ok(base), Ok(rf)) = (iref::$m::$Ri::new($b), iref::$m::$RiRef::new($r)) else {
			$f.ok(&["C01"], &format!("{tag}.inputs"), false, || json!("specification-valid inputs rejected"));
			return;
		};
		let post = &$case["post"];
		// by reference
		if let Some(x) = $f.run(C06, &format!("{tag}.resolved"), || rf.resolved(base)) {
			$f.member(C06, &format!("{tag}.resolved"), x.as_str(), post);
			$f.ok(C06, &format!("{tag}.resolved.is_full"), iref::$m::$Ri::new(x.as_str()).is_ok(), || json!(x.as_str()));
			$results.push(x.as_str().to_string());
		}
		// by value
		if let Some(x) = $f.run(C06, &format!("{tag}.into_resolved"), || rf.to_owned().into_resolved(base)) {
			$f.member(C06, &format!("{tag}.into_resolved"), x.as_str(), post);
			$results.push(x.as_str().to_string());
		}
		// in place
		let mut buf: iref::$m::$RiRefBuf = rf.to_owned();
		if $f.run(C06, &format!("{tag}.resolve"), || buf.resolve(base)).is_some() {
			$f.member(C06, &format!("{tag}.resolve"), buf.as_str(), post);
			$f.ok(&["C04", "C06"], &format!("{tag}.resolve.valid"), iref::$m::$RiRef::new(buf.as_str()).is_ok(), || json!(buf.as_str()));
			$f.ok(C06, &format!("{tag}.resolve.has_scheme"), buf.scheme().is_some(), || json!(buf.as_str()));
			$results.push(buf.as_str().to_string());
		}
		// through the owned base too
		let obase: iref::$m::$RiBuf = base.to_owned();
		if let Some(x) = $f.run(C06, &format!("{tag}.resolved.owned_base"), || rf.resolved(&obase)) {
			$f.member(C06, &format!("{tag}.resolved.owned_base"), x.as_str(), post);
			$results.push(x.as_str().to_string());
		}
		// the base is left unchanged
		$f.eq(C06, &format!("{tag}.base_unchanged"), base.as_str(), $b);
		$f.eq(C06, &format!("{tag}.base_unchanged.owned"), obase.as_str(), $b);
		$f.eq(C06, &format!("{tag}.ref_unchanged"), rf.as_str(), $r);
	}};
}

pub fn run(case: &Value, f: &mut Fails) {
	let b_owned = text(&case["base"]);
	let r_owned = text(&case["ref"]);
	let (b, r) = (b_owned.as_str(), r_owned.as_str());
	let mut results: Vec<String> = Vec::new();
	fam!(f, case, b, r, iri, Iri, IriBuf, IriRef, IriRefBuf, "iri", results);
	if b.is_ascii() && r.is_ascii() {
		fam!(f, case, b, r, uri, Uri, UriBuf, UriRef, UriRefBuf, "uri", results);
	}
	// all entry points, and both families on ASCII input, return the same text
	if let Some(first) = results.first() {
		let same = results.iter().all(|x| x == first);
		f.ok(C13, "all_entry_points_agree", same, || json!(results));
	}
}
