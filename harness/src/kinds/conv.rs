//! The complete conversion lattice between the eight reference types (C13), run on every
//! "ref" case: `as_*`, `into_*`, `try_into_*`, `From`, `TryFrom`, borrowed and owned.
//!
//! Expectations come from the case (computed by TLC): `full` (the text has a scheme, i.e. is a
//! member of the URI/IRI production) and `fam` ("both" = the text is ASCII, hence a member of
//! the URI-family production - MC_Incl proves L(U) = L(I) /\ ASCII*).  A conversion succeeds
//! exactly when the target language contains the text, preserves the text, and a failed one
//! hands the original value back.

use crate::common::*;
use iref::{iri, uri};
use serde_json::Value;

const C13: &[&str] = &["C13"];

/// `r`: Ok(text of the converted value) | Err(text of the value handed back)
fn judge(f: &mut Fails, what: &str, r: Result<String, String>, expect_ok: bool, s: &str) {
	match r {
		Ok(t) => {
			f.eq(C13, &format!("{what}.succeeds"), true, expect_ok);
			f.eq(C13, &format!("{what}.text"), t.as_str(), s);
		}
		Err(t) => {
			f.eq(C13, &format!("{what}.succeeds"), false, expect_ok);
			f.eq(C13, &format!("{what}.returns_original"), t.as_str(), s);
		}
	}
}

fn opt(f: &mut Fails, what: &str, r: Option<String>, expect_ok: bool, s: &str) {
	match r {
		Some(t) => {
			f.eq(C13, &format!("{what}.succeeds"), true, expect_ok);
			f.eq(C13, &format!("{what}.text"), t.as_str(), s);
		}
		None => f.eq(C13, &format!("{what}.succeeds"), false, expect_ok),
	}
}

pub fn run(case: &Value, f: &mut Fails, s: &str) {
	let ascii = case["fam"].as_str() == Some("both");
	let full = case["full"].as_bool().unwrap();

	// ---------------- from an IRI reference
	if let Ok(v) = iri::IriRef::new(s) {
		opt(f, "IriRef.as_iri", v.as_iri().map(|x| x.as_str().to_string()), full, s);
		opt(f, "IriRef.as_uri", v.as_uri().map(|x| x.as_str().to_string()), full && ascii, s);
		opt(f, "IriRef.as_uri_ref", v.as_uri_ref().map(|x| x.as_str().to_string()), ascii, s);
		judge(f, "TryFrom<&IriRef> for &Iri", <&iri::Iri>::try_from(v).map(|x| x.as_str().to_string()).map_err(|e| e.0.as_str().to_string()), full, s);
		judge(f, "TryFrom<&IriRef> for &Uri", <&uri::Uri>::try_from(v).map(|x| x.as_str().to_string()).map_err(|e| e.0.as_str().to_string()), full && ascii, s);
		judge(f, "TryFrom<&IriRef> for &UriRef", <&uri::UriRef>::try_from(v).map(|x| x.as_str().to_string()).map_err(|e| e.0.as_str().to_string()), ascii, s);
		let o = v.to_owned();
		judge(f, "IriRefBuf.try_into_iri", o.clone().try_into_iri().map(|x| x.into_string()).map_err(|e| e.0.into_string()), full, s);
		judge(f, "IriRefBuf.try_into_uri", o.clone().try_into_uri().map(|x| x.into_string()).map_err(|e| e.0.into_string()), full && ascii, s);
		judge(f, "IriRefBuf.try_into_uri_ref", o.clone().try_into_uri_ref().map(|x| x.into_string()).map_err(|e| e.0.into_string()), ascii, s);
		judge(f, "TryFrom<IriRefBuf> for IriBuf", iri::IriBuf::try_from(o.clone()).map(|x| x.into_string()).map_err(|e| e.0.into_string()), full, s);
		judge(f, "TryFrom<IriRefBuf> for UriBuf", uri::UriBuf::try_from(o.clone()).map(|x| x.into_string()).map_err(|e| e.0.into_string()), full && ascii, s);
		judge(f, "TryFrom<IriRefBuf> for UriRefBuf", uri::UriRefBuf::try_from(o.clone()).map(|x| x.into_string()).map_err(|e| e.0.into_string()), ascii, s);
	}
	// ---------------- from a full IRI
	if let Ok(v) = iri::Iri::new(s) {
		f.eq(C13, "Iri.as_iri_ref.text", v.as_iri_ref().as_str(), s);
		f.eq(C13, "From<&Iri> for &IriRef.text", <&iri::IriRef>::from(v).as_str(), s);
		f.eq(C13, "AsRef<IriRef> for Iri.text", AsRef::<iri::IriRef>::as_ref(v).as_str(), s);
		f.eq(C13, "Borrow<IriRef> for Iri.text", std::borrow::Borrow::<iri::IriRef>::borrow(v).as_str(), s);
		opt(f, "Iri.as_uri", v.as_uri().map(|x| x.as_str().to_string()), ascii, s);
		opt(f, "Iri.as_uri_ref", v.as_uri_ref().map(|x| x.as_str().to_string()), ascii, s);
		judge(f, "TryFrom<&Iri> for &Uri", <&uri::Uri>::try_from(v).map(|x| x.as_str().to_string()).map_err(|e| e.0.as_str().to_string()), ascii, s);
		judge(f, "TryFrom<&Iri> for &UriRef", <&uri::UriRef>::try_from(v).map(|x| x.as_str().to_string()).map_err(|e| e.0.as_str().to_string()), ascii, s);
		let o = v.to_owned();
		f.eq(C13, "IriBuf.into_iri_ref.text", o.clone().into_iri_ref().as_str(), s);
		f.eq(C13, "From<IriBuf> for IriRefBuf.text", iri::IriRefBuf::from(o.clone()).as_str(), s);
		f.eq(C13, "AsRef<IriRef> for IriBuf.text", AsRef::<iri::IriRef>::as_ref(&o).as_str(), s);
		f.eq(C13, "Borrow<IriRef> for IriBuf.text", std::borrow::Borrow::<iri::IriRef>::borrow(&o).as_str(), s);
		judge(f, "IriBuf.try_into_uri", o.clone().try_into_uri().map(|x| x.into_string()).map_err(|e| e.0.into_string()), ascii, s);
		judge(f, "IriBuf.try_into_uri_ref", o.clone().try_into_uri_ref().map(|x| x.into_string()).map_err(|e| e.0.into_string()), ascii, s);
		judge(f, "TryFrom<IriBuf> for UriBuf", uri::UriBuf::try_from(o.clone()).map(|x| x.into_string()).map_err(|e| e.0.into_string()), ascii, s);
		judge(f, "TryFrom<IriBuf> for UriRefBuf", uri::UriRefBuf::try_from(o.clone()).map(|x| x.into_string()).map_err(|e| e.0.into_string()), ascii, s);
	}
	if !ascii {
		return;
	}
	// ---------------- from a URI reference
	if let Ok(v) = uri::UriRef::new(s) {
		opt(f, "UriRef.as_uri", v.as_uri().map(|x| x.as_str().to_string()), full, s);
		opt(f, "UriRef.as_iri", v.as_iri().map(|x| x.as_str().to_string()), full, s);
		f.eq(C13, "UriRef.as_iri_ref.text", v.as_iri_ref().as_str(), s);
		f.eq(C13, "From<&UriRef> for &IriRef.text", <&iri::IriRef>::from(v).as_str(), s);
		judge(f, "TryFrom<&UriRef> for &Uri", <&uri::Uri>::try_from(v).map(|x| x.as_str().to_string()).map_err(|e| e.0.as_str().to_string()), full, s);
		judge(f, "TryFrom<&UriRef> for &Iri", <&iri::Iri>::try_from(v).map(|x| x.as_str().to_string()).map_err(|e| e.0.as_str().to_string()), full, s);
		let o = v.to_owned();
		f.eq(C13, "UriRefBuf.into_iri_ref.text", o.clone().into_iri_ref().as_str(), s);
		f.eq(C13, "From<UriRefBuf> for IriRefBuf.text", iri::IriRefBuf::from(o.clone()).as_str(), s);
		judge(f, "UriRefBuf.try_into_uri", o.clone().try_into_uri().map(|x| x.into_string()).map_err(|e| e.0.into_string()), full, s);
		judge(f, "UriRefBuf.try_into_iri", o.clone().try_into_iri().map(|x| x.into_string()).map_err(|e| e.0.into_string()), full, s);
		judge(f, "TryFrom<UriRefBuf> for UriBuf", uri::UriBuf::try_from(o.clone()).map(|x| x.into_string()).map_err(|e| e.0.into_string()), full, s);
		judge(f, "TryFrom<UriRefBuf> for IriBuf", iri::IriBuf::try_from(o.clone()).map(|x| x.into_string()).map_err(|e| e.0.into_string()), full, s);
		// the IRI view of a URI reference is accepted by the IRI type's own validator
		f.ok(C13, "UriRef.as_iri_ref.valid", iri::IriRef::new(v.as_iri_ref().as_str()).is_ok(), || serde_json::json!(s));
	}
	// ---------------- from a full URI
	if let Ok(v) = uri::Uri::new(s) {
		f.eq(C13, "Uri.as_uri_ref.text", v.as_uri_ref().as_str(), s);
		f.eq(C13, "Uri.as_iri.text", v.as_iri().as_str(), s);
		f.eq(C13, "Uri.as_iri_ref.text", v.as_iri_ref().as_str(), s);
		f.eq(C13, "Borrow<UriRef> for Uri.text", std::borrow::Borrow::<uri::UriRef>::borrow(v).as_str(), s);
		f.eq(C13, "Borrow<Iri> for Uri.text", std::borrow::Borrow::<iri::Iri>::borrow(v).as_str(), s);
		f.eq(C13, "Borrow<IriRef> for Uri.text", std::borrow::Borrow::<iri::IriRef>::borrow(v).as_str(), s);
		let o = v.to_owned();
		f.eq(C13, "UriBuf.into_uri_ref.text", o.clone().into_uri_ref().as_str(), s);
		f.eq(C13, "UriBuf.into_iri.text", o.clone().into_iri().as_str(), s);
		f.eq(C13, "UriBuf.into_iri_ref.text", o.clone().into_iri_ref().as_str(), s);
		f.eq(C13, "From<UriBuf> for UriRefBuf.text", uri::UriRefBuf::from(o.clone()).as_str(), s);
		f.eq(C13, "Borrow<UriRef> for UriBuf.text", std::borrow::Borrow::<uri::UriRef>::borrow(&o).as_str(), s);
		f.eq(C13, "Borrow<Iri> for UriBuf.text", std::borrow::Borrow::<iri::Iri>::borrow(&o).as_str(), s);
		f.eq(C13, "Borrow<IriRef> for UriBuf.text", std::borrow::Borrow::<iri::IriRef>::borrow(&o).as_str(), s);
		f.ok(C13, "Uri.as_iri.valid", iri::Iri::new(v.as_iri().as_str()).is_ok(), || serde_json::json!(s));
	}
}
