//! k = "path": a valid path with everything the specification says about it (C09, C12, C20).
//! k = "iter": one interleaving of next / next_back on the segment iterator (C12).

use crate::alloc_count::allocs;
use crate::common::*;
use serde_json::{json, Value};

const C09: &[&str] = &["C09"];
const C12: &[&str] = &["C12"];
const C20: &[&str] = &["C20"];
const C01: &[&str] = &["C01"];
const C04: &[&str] = &["C04", "C09"];

fn seq_texts(v: &Value) -> Vec<String> {
	v.as_array().unwrap().iter().map(text).collect()
}

/// `Some(text)` / `None` against a set that encodes "none" as the NULL marker.
fn opt_member(f: &mut Fails, props: &[&str], what: &str, observed: Option<&str>, set: &Value) {
	f.checks += 1;
	let ok = set.as_array().unwrap().iter().any(|t| match observed {
		None => is_null(t),
		Some(s) => !is_null(t) && text_of(t).as_deref() == Some(s),
	});
	if !ok {
		f.list.push(json!({"props": props, "what": what, "observed": observed,
			"expected_one_of": set.as_array().unwrap().iter().map(|t| if is_null(t) { Value::Null } else { json!(text(t)) }).collect::<Vec<_>>()}));
	}
}

/// A slice handed out by a borrowed accessor lies inside the input or is a fixed constant.
fn zero_copy(f: &mut Fails, what: &str, input: &[u8], out: &[u8]) {
	let inside = ptr_off(input, out).is_some();
	let constant = matches!(out, b"" | b"/" | b"/./");
	f.ok(C20, what, inside || constant, || json!({"slice": String::from_utf8_lossy(out), "inside_input": inside}));
}

macro_rules! path_fam {
	($f:ident, $case:ident, $s:ident, $m:ident, $RefBuf:ident, $FullBuf:ident, $tag:expr) => {{
		let tag: &str = $tag;
		use iref::$m::{Path, PathBuf};
		let a0 = allocs();
		let r = Path::new($s);
		let d = allocs() - a0;
		$f.eq(C20, &format!("{tag}.new.allocs"), d, 0);
		match r {
			Err(_) => $f.ok(C01, &format!("{tag}.new"), false, || json!("a specification-valid path is rejected")),
			Ok(p) => {
				let sb = $s.as_bytes();
				// ---- queries (C12), allocation-free (C20)
				let a0 = allocs();
				let is_empty = p.is_empty();
				let is_abs = p.is_absolute();
				let is_rel = p.is_relative();
				let count = p.segment_count();
				let first = p.first();
				let last = p.last();
				let file_name = p.file_name();
				let directory = p.directory();
				let parent = p.parent();
				let parent_or_empty = p.parent_or_empty();
				let mut n_fwd = 0usize;
				for _ in p.segments() { n_fwd += 1; }
				let d = allocs() - a0;
				$f.eq(C20, &format!("{tag}.queries.allocs"), d, 0);
				$f.eq(C12, &format!("{tag}.is_empty"), is_empty, $case["empty"].as_bool().unwrap());
				$f.eq(C12, &format!("{tag}.is_absolute"), is_abs, $case["abs"].as_bool().unwrap());
				$f.eq(C12, &format!("{tag}.is_relative"), is_rel, !$case["abs"].as_bool().unwrap());
				$f.eq(C12, &format!("{tag}.segment_count"), count as u64, $case["count"].as_u64().unwrap());
				$f.eq(C12, &format!("{tag}.segments.count"), n_fwd as u64, $case["count"].as_u64().unwrap());
				let segs = seq_texts(&$case["segs"]);
				let fwd: Vec<String> = p.segments().map(|s| s.as_str().to_string()).collect();
				$f.eq(C12, &format!("{tag}.segments"), &fwd, &segs);
				let mut bwd: Vec<String> = p.segments().rev().map(|s| s.as_str().to_string()).collect();
				bwd.reverse();
				$f.eq(C12, &format!("{tag}.segments.rev"), &bwd, &segs);
				let into: Vec<String> = p.into_iter().map(|s| s.as_str().to_string()).collect();
				$f.eq(C12, &format!("{tag}.into_iter"), &into, &segs);
				// joining the segments reproduces the path
				let joined = format!("{}{}", if is_abs { "/" } else { "" }, fwd.join("/"));
				$f.eq(C12, &format!("{tag}.join"), joined.as_str(), $s);
				for s in p.segments() {
					$f.ok(C12, &format!("{tag}.segment.valid"), iref::$m::Segment::new(s.as_str()).is_ok(), || json!(s.as_str()));
					zero_copy($f, &format!("{tag}.segment.zero_copy"), sb, s.as_bytes());
				}
				$f.eq(C12, &format!("{tag}.first"), enc_opt(first.map(|x| x.as_str())), $case["first"].clone());
				$f.eq(C12, &format!("{tag}.last"), enc_opt(last.map(|x| x.as_str())), $case["last"].clone());
				$f.eq(C12, &format!("{tag}.file_name"), enc_opt(file_name.map(|x| x.as_str())), $case["file_name"].clone());
				$f.eq(C12, &format!("{tag}.directory"), enc(directory.as_str()), $case["directory"].clone());
				opt_member($f, C12, &format!("{tag}.parent"), parent.map(|x| x.as_str()), &$case["parent"]);
				opt_member($f, C12, &format!("{tag}.parent_or_empty"), Some(parent_or_empty.as_str()), &$case["parent_or_empty"]);
				if let Some(x) = first { zero_copy($f, &format!("{tag}.first.zero_copy"), sb, x.as_bytes()); }
				if let Some(x) = last { zero_copy($f, &format!("{tag}.last.zero_copy"), sb, x.as_bytes()); }
				if let Some(x) = file_name { zero_copy($f, &format!("{tag}.file_name.zero_copy"), sb, x.as_bytes()); }
				zero_copy($f, &format!("{tag}.directory.zero_copy"), sb, directory.as_bytes());
				if let Some(x) = parent { zero_copy($f, &format!("{tag}.parent.zero_copy"), sb, x.as_bytes()); }
				zero_copy($f, &format!("{tag}.parent_or_empty.zero_copy"), sb, parent_or_empty.as_bytes());
				// ---- == between VIEWS OF ONE BUFFER (a path and its parent / directory start at the same
				// ---- address): the answer must be the one freshly allocated copies give, and agree with cmp
				{
					const C0708: &[&str] = &["C07", "C08"];
					for (what, v) in [("parent_or_empty", Some(parent_or_empty)), ("directory", Some(directory)), ("parent", parent)] {
						if let Some(v) = v {
							let a = PathBuf::new(v.as_str().to_string().into()).expect("view");
							let b = PathBuf::new($s.to_string().into()).expect("path");
							let fresh = *a == *b;
							$f.eq(C0708, &format!("{tag}.eq.{what}_vs_self"), *v == *p, fresh);
							$f.eq(C0708, &format!("{tag}.eq.self_vs_{what}"), *p == *v, fresh);
							$f.eq(C0708, &format!("{tag}.cmp.{what}_vs_self"), v.cmp(p) == std::cmp::Ordering::Equal, fresh);
						}
					}
				}
				// ---- internal iteration (fold / rfold / rev().for_each) sees the same sequence as next()
				{
					let all = seq_texts(&$case["segs"]);
					let f1: Vec<String> = p.segments().fold(Vec::new(), |mut v, s| { v.push(s.as_str().to_string()); v });
					$f.eq(C12, &format!("{tag}.segments.fold"), &f1, &all);
					let mut r1: Vec<String> = p.segments().rfold(Vec::new(), |mut v, s| { v.push(s.as_str().to_string()); v });
					r1.reverse();
					$f.eq(C12, &format!("{tag}.segments.rfold"), &r1, &all);
					let mut r2: Vec<String> = Vec::new();
					p.segments().rev().for_each(|s| r2.push(s.as_str().to_string()));
					r2.reverse();
					$f.eq(C12, &format!("{tag}.segments.rev.for_each"), &r2, &all);
				}
				// ---- normalisation (C09)
				let nsegs = seq_texts(&$case["nsegs"]);
				let it = p.normalized_segments();
				$f.eq(C12, &format!("{tag}.normalized_segments.len"), it.len(), nsegs.len());
				$f.eq(C09, &format!("{tag}.normalized_segments.len"), it.len(), nsegs.len());
				let got: Vec<String> = it.map(|s| s.as_str().to_string()).collect();
				$f.eq(C09, &format!("{tag}.normalized_segments"), &got, &nsegs);
				let mut got_rev: Vec<String> = p.normalized_segments().rev().map(|s| s.as_str().to_string()).collect();
				got_rev.reverse();
				$f.eq(C09, &format!("{tag}.normalized_segments.rev"), &got_rev, &nsegs);
				// the normalized-segment iterator is double-ended and exact-size: alternate the two ends,
				// the announced length drops by one per item, the consuming methods see what is left
				{
					let mut it = p.normalized_segments();
					let (mut front, mut back): (Vec<String>, Vec<String>) = (vec![], vec![]);
					let mut from_back = false;
					let mut lens_ok = true;
					loop {
						let before = it.len();
						let x = if from_back { it.next_back() } else { it.next() };
						match x {
							None => { lens_ok &= before == 0; break }
							Some(s) => {
								lens_ok &= it.len() + 1 == before;
								if from_back { back.push(s.as_str().to_string()) } else { front.push(s.as_str().to_string()) }
							}
						}
						from_back = !from_back;
					}
					back.reverse();
					front.extend(back);
					$f.eq(C09, &format!("{tag}.normalized_segments.alternating_ends"), &front, &nsegs);
					let f1: Vec<String> = p.normalized_segments().fold(Vec::new(), |mut v, s| { v.push(s.as_str().to_string()); v });
					$f.eq(C09, &format!("{tag}.normalized_segments.fold"), &f1, &nsegs);
					let mut r1: Vec<String> = p.normalized_segments().rfold(Vec::new(), |mut v, s| { v.push(s.as_str().to_string()); v });
					r1.reverse();
					$f.eq(C09, &format!("{tag}.normalized_segments.rfold"), &r1, &nsegs);
					let mut r2: Vec<String> = Vec::new();
					p.normalized_segments().rev().for_each(|s| r2.push(s.as_str().to_string()));
					r2.reverse();
					$f.eq(C09, &format!("{tag}.normalized_segments.rev.for_each"), &r2, &nsegs);
					$f.ok(C12, &format!("{tag}.normalized_segments.exact_size"), lens_ok, || json!($s));
					if nsegs.len() >= 2 {
						let mut it = p.normalized_segments();
						it.next_back();
						$f.eq(C09, &format!("{tag}.normalized_segments.partly_consumed.count"), it.count(), nsegs.len() - 1);
						let mut it = p.normalized_segments();
						it.next_back();
						$f.eq(C09, &format!("{tag}.normalized_segments.partly_consumed.last"), it.last().map(|s| s.as_str().to_string()), Some(nsegs[nsegs.len() - 2].clone()));
						let mut it = p.normalized_segments();
						it.next();
						$f.eq(C09, &format!("{tag}.normalized_segments.partly_consumed.nth_back"), it.nth_back(0).map(|s| s.as_str().to_string()), Some(nsegs[nsegs.len() - 1].clone()));
					}
				}
				if let Some(n) = $f.run(C09, &format!("{tag}.normalized"), || p.normalized()) {
					$f.member(C09, &format!("{tag}.normalized"), n.as_str(), &$case["normalized"]);
					$f.ok(C04, &format!("{tag}.normalized.valid"), Path::new(n.as_str()).is_ok(), || json!(n.as_str()));
					// idempotent
					if let Some(n2) = $f.run(C09, &format!("{tag}.normalized.twice"), || n.normalized()) {
						$f.eq(C09, &format!("{tag}.normalized.idempotent"), n2.as_str(), n.as_str());
					}
				}
				// in place, stand-alone buffer
				let mut buf: PathBuf = p.to_owned();
				if $f.run(C09, &format!("{tag}.normalize"), || buf.normalize()).is_some() {
					$f.member(C09, &format!("{tag}.normalize"), buf.as_str(), &$case["inplace"]);
					$f.ok(C04, &format!("{tag}.normalize.valid"), Path::new(buf.as_str()).is_ok(), || json!(buf.as_str()));
					let once = buf.as_str().to_string();
					if $f.run(C09, &format!("{tag}.normalize.twice"), || buf.normalize()).is_some() {
						$f.eq(C09, &format!("{tag}.normalize.idempotent"), buf.as_str(), once.as_str());
					}
				}
				let mut buf: PathBuf = p.to_owned();
				let view = $f.run(C09, &format!("{tag}.path_mut.normalize"), || { let mut pm = buf.as_path_mut(); pm.normalize(); pm.as_str().to_string() });
				if let Some(view) = view {
					$f.member(C09, &format!("{tag}.path_mut.normalize.view"), &view, &$case["inplace"]);
					$f.eq(C09, &format!("{tag}.path_mut.normalize.coherent"), buf.as_str(), view.as_str());
				}
				// in place, inside references: everything else must re-parse unchanged
				for (k, ctx) in $case["ctxs"].as_array().unwrap().iter().enumerate() {
					let pre = text(&ctx["pre"]);
					let what = format!("{tag}.ctx{k}.normalize");
					if ctx["kind"].as_str() == Some("full") {
						if let Ok(mut b) = iref::$m::$FullBuf::new(pre.clone().into()) {
							let view = $f.run(C04, &what, || { let mut pm = b.path_mut(); pm.normalize(); pm.as_str().to_string() });
							if view.is_some() {
								$f.member(&["C09", "C04"], &what, b.as_str(), &ctx["post"]);
							}
						}
					} else if let Ok(mut b) = iref::$m::$RefBuf::new(pre.clone().into()) {
						let view = $f.run(C04, &what, || { let mut pm = b.path_mut(); pm.normalize(); pm.as_str().to_string() });
						if view.is_some() {
							$f.member(&["C09", "C04"], &what, b.as_str(), &ctx["post"]);
						}
					}
				}
			}
		}
	}};
}

pub fn run_path(case: &Value, f: &mut Fails) {
	let s_owned = text(&case["p"]);
	let s = s_owned.as_str();
	path_fam!(f, case, s, iri, IriRefBuf, IriBuf, "iri");
	if case["fam"].as_str() == Some("both") {
		path_fam!(f, case, s, uri, UriRefBuf, UriBuf, "uri");
	}
}

macro_rules! iter_fam {
	($f:ident, $case:ident, $s:ident, $m:ident, $tag:expr) => {{
		let tag: &str = $tag;
		if let Ok(p) = iref::$m::Path::new($s) {
			let calls: Vec<u64> = $case["calls"].as_array().unwrap().iter().map(|c| c.as_u64().unwrap()).collect();
			let exp: Vec<Option<String>> = $case["yields"].as_array().unwrap().iter().map(opt_text).collect();
			let a0 = allocs();
			let got = guard(|| {
				let mut it = p.segments();
				let mut out: [Option<&iref::$m::Segment>; 16] = [None; 16];
				for (k, c) in calls.iter().enumerate() {
					out[k] = if *c == 0 { it.next() } else { it.next_back() };
				}
				out
			});
			let d = allocs() - a0;
			match got {
				Err(m) => $f.panic(C12, &format!("{tag}.iter"), &m),
				Ok(out) => {
					$f.eq(C20, &format!("{tag}.iter.allocs"), d, 0);
					let got: Vec<Option<String>> = out[..calls.len()].iter().map(|o| o.map(|s| s.as_str().to_string())).collect();
					$f.eq(C12, &format!("{tag}.iter.yields"), &got, &exp);
				}
			}
			// ---- the consuming methods of Iterator / DoubleEndedIterator on a PARTLY consumed iterator:
			// ---- what is left after the first k calls is segs[front yields .. len - back yields]
			if let Some(all) = $case.get("segs").and_then(|v| v.as_array()) {
				let all: Vec<String> = all.iter().map(text).collect();
				let first_back = calls.iter().position(|c| *c == 1).map(|i| i + 1).unwrap_or(0);
				for k in [first_back, calls.len() / 2] {
					let fy = (0..k).filter(|i| calls[*i] == 0 && exp[*i].is_some()).count();
					let by = (0..k).filter(|i| calls[*i] == 1 && exp[*i].is_some()).count();
					let rest: Vec<&str> = if fy + by <= all.len() { all[fy..all.len() - by].iter().map(|s| s.as_str()).collect() } else { vec![] };
					macro_rules! probe {
						($what:expr, |$it:ident| $body:expr) => {{
							let r = guard(|| {
								#[allow(unused_mut)]
								let mut $it = p.segments();
								for c in &calls[..k] {
									if *c == 0 { $it.next(); } else { $it.next_back(); }
								}
								$body
							});
							match r {
								Err(m) => { $f.panic(C12, &format!("{tag}.iter.{}", $what), &m); None }
								Ok(v) => Some(v),
							}
						}};
					}
					if let Some(n) = probe!("count", |it| it.count()) {
						$f.eq(C12, &format!("{tag}.iter.partly_consumed.count"), n, rest.len());
					}
					if let Some(l) = probe!("last", |it| it.last().map(|s| s.as_str().to_string())) {
						$f.eq(C12, &format!("{tag}.iter.partly_consumed.last"), l.as_deref(), rest.last().copied());
					}
					if let Some(l) = probe!("nth", |it| it.nth(1).map(|s| s.as_str().to_string())) {
						$f.eq(C12, &format!("{tag}.iter.partly_consumed.nth(1)"), l.as_deref(), rest.get(1).copied());
					}
					if let Some(l) = probe!("nth_back", |it| it.nth_back(1).map(|s| s.as_str().to_string())) {
						$f.eq(C12, &format!("{tag}.iter.partly_consumed.nth_back(1)"), l.as_deref(), if rest.len() >= 2 { Some(rest[rest.len() - 2]) } else { None });
					}
					if let Some((lo, hi)) = probe!("size_hint", |it| it.size_hint()) {
						$f.ok(C12, &format!("{tag}.iter.partly_consumed.size_hint"), lo <= rest.len() && hi.map(|h| h >= rest.len()).unwrap_or(true), || json!({"lo": lo, "hi": hi, "left": rest.len()}));
					}
					if let Some(v) = probe!("rev_collect", |it| it.rev().map(|s| s.as_str().to_string()).collect::<Vec<_>>()) {
						let mut e: Vec<String> = rest.iter().map(|s| s.to_string()).collect();
						e.reverse();
						$f.eq(C12, &format!("{tag}.iter.partly_consumed.rev"), v, e);
					}
				}
			}
		}
	}};
}

pub fn run_iter(case: &Value, f: &mut Fails) {
	let s_owned = text(&case["p"]);
	let s = s_owned.as_str();
	iter_fam!(f, case, s, iri, "iri");
	if case["fam"].as_str() == Some("both") {
		iter_fam!(f, case, s, uri, "uri");
	}
}
