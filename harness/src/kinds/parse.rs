//! k = "parse": {"ty": <type tag>, "w": [symbols], "ok": bool}
//!
//! Every construction route of the type must give the verdict computed by the specification,
//! keep the text byte-for-byte on success and hand the input back on failure (C01, C14);
//! borrowed construction is zero-copy and allocation-free (C20); every textual route out of
//! an accepted value reproduces the text (C14).

use crate::alloc_count::allocs;
use crate::common::*;
use serde::de::value::{
	BorrowedBytesDeserializer, BorrowedStrDeserializer, BytesDeserializer, Error as DeError,
	StrDeserializer, StringDeserializer,
};
use serde::de::{Deserializer, Visitor};
use serde::Deserialize;
use serde_json::Value;
use std::collections::hash_map::DefaultHasher;
use std::hash::{Hash, Hasher};
use std::str::FromStr;

/// A deserializer that hands an owned byte buffer to the visitor (`visit_byte_buf`), a
/// route no self-describing text format exercises.
struct ByteBufDeserializer(Vec<u8>);

impl<'de> Deserializer<'de> for ByteBufDeserializer {
	type Error = DeError;
	fn deserialize_any<V: Visitor<'de>>(self, v: V) -> Result<V::Value, DeError> {
		v.visit_byte_buf(self.0)
	}
	serde::forward_to_deserialize_any! {
		bool i8 i16 i32 i64 i128 u8 u16 u32 u64 u128 f32 f64 char str string bytes byte_buf
		option unit unit_struct newtype_struct seq tuple tuple_struct map struct enum
		identifier ignored_any
	}
}

const P_NEW: &[&str] = &["C01"];
const P_ROUTE: &[&str] = &["C01", "C14"];
const P_OUT: &[&str] = &["C14"];
const P_ZC: &[&str] = &["C20"];

fn hash_of<T: Hash + ?Sized>(v: &T) -> u64 {
	let mut h = DefaultHasher::new();
	v.hash(&mut h);
	h.finish()
}

/// Validated `str` types (IRI family).
macro_rules! str_type {
	($fails:ident, $s:ident, $ok:ident, $T:ty, $TBuf:ty, hash = $hash:tt, from_vec = $from_vec:tt) => {{
		let s: &str = $s;
		let f = &mut *$fails;
		// ---- borrowed constructor: verdict, text, payload, zero-copy, no allocation
		let a0 = allocs();
		let r = guard(|| <$T>::new(s));
		let a1 = allocs();
		match r {
			Err(m) => f.panic(P_NEW, "new", &m),
			Ok(Ok(v)) => {
				f.eq(P_NEW, "new.verdict", true, $ok);
				f.eq(P_NEW, "new.text", v.as_str(), s);
				f.eq(P_ZC, "new.ptr", v.as_str().as_ptr() as usize, s.as_ptr() as usize);
				f.eq(P_ZC, "new.len", v.as_str().len(), s.len());
				f.eq(P_ZC, "new.allocs", a1 - a0, 0);
				// ---- routes out (C14)
				f.eq(P_OUT, "out.display", format!("{}", v), s.to_string());
				f.ok(P_OUT, "out.debug", debug_shows(&format!("{:?}", v), s), || serde_json::json!({"debug": format!("{:?}", v), "text": s}));
				f.eq(P_OUT, "out.as_bytes", v.as_bytes(), s.as_bytes());
				f.eq(P_OUT, "out.as_ref_str", AsRef::<str>::as_ref(v), s);
				f.eq(P_OUT, "out.as_ref_bytes", AsRef::<[u8]>::as_ref(v), s.as_bytes());
				f.eq(P_OUT, "out.borrow_str", std::borrow::Borrow::<str>::borrow(v), s);
				f.eq(P_OUT, "out.from_ref", <&str>::from(v), s);
				f.eq(P_OUT, "out.to_string", v.to_string(), s.to_string());
				let owned = v.to_owned();
				f.eq(P_OUT, "out.to_owned", owned.as_str(), s);
				f.eq(P_OUT, "out.clone", owned.clone().as_str(), s);
				f.eq(P_OUT, "out.buf_display", format!("{}", owned), s.to_string());
				f.ok(P_OUT, "out.buf_debug", debug_shows(&format!("{:?}", owned), s), || serde_json::json!({"debug": format!("{:?}", owned), "text": s}));
				f.eq(P_OUT, "out.buf_as_bytes", owned.as_bytes(), s.as_bytes());
				f.eq(P_OUT, "out.buf_as_ref_str", AsRef::<str>::as_ref(&owned), s);
				f.eq(P_OUT, "out.buf_borrow_str", std::borrow::Borrow::<str>::borrow(&owned), s);
				f.eq(P_OUT, "out.into_string", owned.clone().into_string(), s.to_string());
				f.eq(P_OUT, "out.into_bytes", owned.clone().into_bytes(), s.as_bytes().to_vec());
				f.eq(P_OUT, "out.from_buf", String::from(owned.clone()), s.to_string());
				if let Some(j) = f.run(P_OUT, "out.serialize", || serde_json::to_string(v).ok()) {
					f.eq(P_OUT, "out.serialize", j, serde_json::to_string(s).ok());
				}
				if let Some(j) = f.run(P_OUT, "out.buf_serialize", || serde_json::to_string(&owned).ok()) {
					f.eq(P_OUT, "out.buf_serialize", j, serde_json::to_string(s).ok());
				}
				str_type!(@hash $hash, f, v, owned, s);
			}
			Ok(Err(e)) => {
				f.eq(P_NEW, "new.verdict", false, $ok);
				f.eq(P_NEW, "new.err_payload", e.0, s);
				f.eq(P_ZC, "new.err_ptr", e.0.as_ptr() as usize, s.as_ptr() as usize);
				f.eq(P_ZC, "new.err_allocs", a1 - a0, 0);
			}
		}
		// ---- owned constructor
		match guard(|| <$TBuf>::new(s.to_string())) {
			Err(m) => f.panic(P_NEW, "buf_new", &m),
			Ok(Ok(v)) => {
				f.eq(P_NEW, "buf_new.verdict", true, $ok);
				f.eq(P_NEW, "buf_new.text", v.as_str(), s);
			}
			Ok(Err(e)) => {
				f.eq(P_NEW, "buf_new.verdict", false, $ok);
				f.eq(P_NEW, "buf_new.err_payload", e.0.as_str(), s);
			}
		}
		// ---- TryFrom / FromStr
		match guard(|| <&$T>::try_from(s)) {
			Err(m) => f.panic(P_ROUTE, "try_from_ref", &m),
			Ok(Ok(v)) => {
				f.eq(P_ROUTE, "try_from_ref.verdict", true, $ok);
				f.eq(P_ROUTE, "try_from_ref.text", v.as_str(), s);
			}
			Ok(Err(e)) => {
				f.eq(P_ROUTE, "try_from_ref.verdict", false, $ok);
				f.eq(P_ROUTE, "try_from_ref.err_payload", e.0, s);
			}
		}
		match guard(|| <$TBuf>::try_from(s.to_string())) {
			Err(m) => f.panic(P_ROUTE, "try_from_string", &m),
			Ok(Ok(v)) => {
				f.eq(P_ROUTE, "try_from_string.verdict", true, $ok);
				f.eq(P_ROUTE, "try_from_string.text", v.as_str(), s);
			}
			Ok(Err(e)) => {
				f.eq(P_ROUTE, "try_from_string.verdict", false, $ok);
				f.eq(P_ROUTE, "try_from_string.err_payload", e.0.as_str(), s);
			}
		}
		match guard(|| <$TBuf>::from_str(s)) {
			Err(m) => f.panic(P_ROUTE, "from_str", &m),
			Ok(Ok(v)) => {
				f.eq(P_ROUTE, "from_str.verdict", true, $ok);
				f.eq(P_ROUTE, "from_str.text", v.as_str(), s);
			}
			Ok(Err(e)) => {
				f.eq(P_ROUTE, "from_str.verdict", false, $ok);
				f.eq(P_ROUTE, "from_str.err_payload", e.0.as_str(), s);
			}
		}
		str_type!(@from_vec $from_vec, f, s, $ok, $TBuf);
		// ---- serde, borrowed
		let r = guard(|| <&$T>::deserialize(BorrowedStrDeserializer::<DeError>::new(s)).ok().map(|v| v.as_str()));
		serde_verdict(f, "serde.borrowed_str", r, s, $ok);
		let r = guard(|| <&$T>::deserialize(BorrowedBytesDeserializer::<DeError>::new(s.as_bytes())).ok().map(|v| v.as_str()));
		serde_verdict(f, "serde.borrowed_bytes", r, s, $ok);
		// ---- serde, owned
		let r = guard(|| <$TBuf>::deserialize(StrDeserializer::<DeError>::new(s)).ok().map(|v| v.into_string()));
		serde_verdict_owned(f, "serde.str", r, s, $ok);
		let r = guard(|| <$TBuf>::deserialize(StringDeserializer::<DeError>::new(s.to_string())).ok().map(|v| v.into_string()));
		serde_verdict_owned(f, "serde.string", r, s, $ok);
		let r = guard(|| <$TBuf>::deserialize(BytesDeserializer::<DeError>::new(s.as_bytes())).ok().map(|v| v.into_string()));
		serde_verdict_owned(f, "serde.bytes", r, s, $ok);
		let r = guard(|| <$TBuf>::deserialize(ByteBufDeserializer(s.as_bytes().to_vec())).ok().map(|v| v.into_string()));
		serde_verdict_owned(f, "serde.byte_buf", r, s, $ok);
		// ---- serde_json
		let j = serde_json::to_string(s).unwrap();
		let r = guard(|| serde_json::from_str::<$TBuf>(&j).ok().map(|v| v.into_string()));
		serde_verdict_owned(f, "json.owned", r, s, $ok);
		let r = guard(|| serde_json::from_slice::<$TBuf>(j.as_bytes()).ok().map(|v| v.into_string()));
		serde_verdict_owned(f, "json.owned_slice", r, s, $ok);
		if j.len() == s.len() + 2 {
			// no escape in the JSON text: the borrowed visitor is reachable
			let r = guard(|| serde_json::from_str::<&$T>(&j).ok().map(|v| v.as_str()));
			serde_verdict(f, "json.borrowed", r, s, $ok);
		}
	}};
	(@hash yes, $f:ident, $v:ident, $owned:ident, $s:ident) => {
		// comparing and hashing never rewrite the text, and never panic on a valid value
		let before = $v.as_str().to_string();
		$f.run(&["C07", "C08"], "self_eq", || { let _ = $v == $v; let _ = hash_of($v); let _ = hash_of(&$owned); });
		$f.eq(P_OUT, "out.after_cmp_hash", $v.as_str(), before.as_str());
	};
	(@hash no, $f:ident, $v:ident, $owned:ident, $s:ident) => {};
	(@from_vec yes, $f:ident, $s:ident, $ok:ident, $TBuf:ty) => {
		match guard(|| <$TBuf>::from_vec($s.as_bytes().to_vec())) {
			Err(m) => $f.panic(P_ROUTE, "from_vec", &m),
			Ok(Ok(v)) => {
				$f.eq(P_ROUTE, "from_vec.verdict", true, $ok);
				$f.eq(P_ROUTE, "from_vec.text", v.as_str(), $s);
			}
			Ok(Err(e)) => {
				$f.eq(P_ROUTE, "from_vec.verdict", false, $ok);
				$f.eq(P_ROUTE, "from_vec.err_payload", e.0.as_slice(), $s.as_bytes());
			}
		}
	};
	(@from_vec no, $f:ident, $s:ident, $ok:ident, $TBuf:ty) => {};
}

fn serde_verdict(f: &mut Fails, what: &str, r: Result<Option<&str>, String>, s: &str, ok: bool) {
	match r {
		Err(m) => f.panic(P_ROUTE, what, &m),
		Ok(Some(t)) => {
			f.eq(P_ROUTE, &format!("{what}.verdict"), true, ok);
			f.eq(P_ROUTE, &format!("{what}.text"), t, s);
		}
		Ok(None) => f.eq(P_ROUTE, &format!("{what}.verdict"), false, ok),
	}
}

fn serde_verdict_owned(f: &mut Fails, what: &str, r: Result<Option<String>, String>, s: &str, ok: bool) {
	match r {
		Err(m) => f.panic(P_ROUTE, what, &m),
		Ok(Some(t)) => {
			f.eq(P_ROUTE, &format!("{what}.verdict"), true, ok);
			f.eq(P_ROUTE, &format!("{what}.text"), t.as_str(), s);
		}
		Ok(None) => f.eq(P_ROUTE, &format!("{what}.verdict"), false, ok),
	}
}

fn serde_verdict_bytes(f: &mut Fails, what: &str, r: Result<Option<Vec<u8>>, String>, b: &[u8], ok: bool) {
	match r {
		Err(m) => f.panic(P_ROUTE, what, &m),
		Ok(Some(t)) => {
			f.eq(P_ROUTE, &format!("{what}.verdict"), true, ok);
			f.eq(P_ROUTE, &format!("{what}.text"), t.as_slice(), b);
		}
		Ok(None) => f.eq(P_ROUTE, &format!("{what}.verdict"), false, ok),
	}
}

/// Validated `[u8]` types (URI family; all of them are `ascii`).
macro_rules! byte_type {
	($fails:ident, $b:ident, $ok:ident, $T:ty, $TBuf:ty, hash = $hash:tt) => {{
		let b: &[u8] = $b;
		let f = &mut *$fails;
		let a0 = allocs();
		let r = guard(|| <$T>::new(b));
		let a1 = allocs();
		match r {
			Err(m) => f.panic(P_NEW, "new", &m),
			Ok(Ok(v)) => {
				f.eq(P_NEW, "new.verdict", true, $ok);
				f.eq(P_NEW, "new.text", v.as_bytes(), b);
				f.eq(P_ZC, "new.ptr", v.as_bytes().as_ptr() as usize, b.as_ptr() as usize);
				f.eq(P_ZC, "new.len", v.as_bytes().len(), b.len());
				f.eq(P_ZC, "new.allocs", a1 - a0, 0);
				if let Ok(s) = std::str::from_utf8(b) {
					f.eq(P_OUT, "out.as_str", v.as_str(), s);
					f.eq(P_OUT, "out.display", format!("{}", v), s.to_string());
					f.ok(P_OUT, "out.debug", debug_shows(&format!("{:?}", v), s), || serde_json::json!({"debug": format!("{:?}", v), "text": s}));
					f.eq(P_OUT, "out.as_ref_str", AsRef::<str>::as_ref(v), s);
					f.eq(P_OUT, "out.as_ref_bytes", AsRef::<[u8]>::as_ref(v), b);
					f.eq(P_OUT, "out.borrow_bytes", std::borrow::Borrow::<[u8]>::borrow(v), b);
					f.eq(P_OUT, "out.from_ref_str", <&str>::from(v), s);
					f.eq(P_OUT, "out.from_ref_bytes", <&[u8]>::from(v), b);
					f.eq(P_OUT, "out.to_string", v.to_string(), s.to_string());
					let owned = v.to_owned();
					f.eq(P_OUT, "out.to_owned", owned.as_bytes(), b);
					f.eq(P_OUT, "out.clone", owned.clone().as_bytes(), b);
					f.eq(P_OUT, "out.buf_display", format!("{}", owned), s.to_string());
					f.ok(P_OUT, "out.buf_debug", debug_shows(&format!("{:?}", owned), s), || serde_json::json!({"debug": format!("{:?}", owned), "text": s}));
					f.eq(P_OUT, "out.buf_as_str", owned.as_str(), s);
					f.eq(P_OUT, "out.buf_as_ref_str", AsRef::<str>::as_ref(&owned), s);
					f.eq(P_OUT, "out.buf_borrow_bytes", std::borrow::Borrow::<[u8]>::borrow(&owned), b);
					f.eq(P_OUT, "out.into_string", owned.clone().into_string(), s.to_string());
					f.eq(P_OUT, "out.into_bytes", owned.clone().into_bytes(), b.to_vec());
					f.eq(P_OUT, "out.from_buf_string", String::from(owned.clone()), s.to_string());
					f.eq(P_OUT, "out.from_buf_vec", Vec::<u8>::from(owned.clone()), b.to_vec());
					if let Some(j) = f.run(P_OUT, "out.serialize", || serde_json::to_string(v).ok()) {
						f.eq(P_OUT, "out.serialize", j, serde_json::to_string(s).ok());
					}
					if let Some(j) = f.run(P_OUT, "out.buf_serialize", || serde_json::to_string(&owned).ok()) {
						f.eq(P_OUT, "out.buf_serialize", j, serde_json::to_string(s).ok());
					}
					byte_type!(@hash $hash, f, v, owned, b);
				} else {
					f.ok(P_NEW, "accepted.is_utf8", false, || enc_bytes(b));
				}
			}
			Ok(Err(e)) => {
				f.eq(P_NEW, "new.verdict", false, $ok);
				f.eq(P_NEW, "new.err_payload", e.0, b);
				f.eq(P_ZC, "new.err_ptr", e.0.as_ptr() as usize, b.as_ptr() as usize);
				f.eq(P_ZC, "new.err_allocs", a1 - a0, 0);
			}
		}
		match guard(|| <$TBuf>::new(b.to_vec())) {
			Err(m) => f.panic(P_NEW, "buf_new", &m),
			Ok(Ok(v)) => {
				f.eq(P_NEW, "buf_new.verdict", true, $ok);
				f.eq(P_NEW, "buf_new.text", v.as_bytes(), b);
			}
			Ok(Err(e)) => {
				f.eq(P_NEW, "buf_new.verdict", false, $ok);
				f.eq(P_NEW, "buf_new.err_payload", e.0.as_slice(), b);
			}
		}
		match guard(|| <&$T>::try_from(b)) {
			Err(m) => f.panic(P_ROUTE, "try_from_ref", &m),
			Ok(Ok(v)) => {
				f.eq(P_ROUTE, "try_from_ref.verdict", true, $ok);
				f.eq(P_ROUTE, "try_from_ref.text", v.as_bytes(), b);
			}
			Ok(Err(e)) => {
				f.eq(P_ROUTE, "try_from_ref.verdict", false, $ok);
				f.eq(P_ROUTE, "try_from_ref.err_payload", e.0, b);
			}
		}
		match guard(|| <$TBuf>::try_from(b.to_vec())) {
			Err(m) => f.panic(P_ROUTE, "try_from_vec", &m),
			Ok(Ok(v)) => {
				f.eq(P_ROUTE, "try_from_vec.verdict", true, $ok);
				f.eq(P_ROUTE, "try_from_vec.text", v.as_bytes(), b);
			}
			Ok(Err(e)) => {
				f.eq(P_ROUTE, "try_from_vec.verdict", false, $ok);
				f.eq(P_ROUTE, "try_from_vec.err_payload", e.0.as_slice(), b);
			}
		}
		// ---- serde over bytes
		let r = guard(|| <&$T>::deserialize(BorrowedBytesDeserializer::<DeError>::new(b)).ok().map(|v| v.as_bytes().to_vec()));
		serde_verdict_bytes(f, "serde.borrowed_bytes", r, b, $ok);
		let r = guard(|| <$TBuf>::deserialize(BytesDeserializer::<DeError>::new(b)).ok().map(|v| v.into_bytes()));
		serde_verdict_bytes(f, "serde.bytes", r, b, $ok);
		let r = guard(|| <$TBuf>::deserialize(ByteBufDeserializer(b.to_vec())).ok().map(|v| v.into_bytes()));
		serde_verdict_bytes(f, "serde.byte_buf", r, b, $ok);
		// ---- routes that need a str
		if let Ok(s) = std::str::from_utf8(b) {
			match guard(|| <$T>::new(s)) {
				Err(m) => f.panic(P_ROUTE, "new_str", &m),
				Ok(Ok(v)) => {
					f.eq(P_ROUTE, "new_str.verdict", true, $ok);
					f.eq(P_ROUTE, "new_str.text", v.as_bytes(), b);
				}
				Ok(Err(e)) => {
					f.eq(P_ROUTE, "new_str.verdict", false, $ok);
					f.eq(P_ROUTE, "new_str.err_payload", e.0, s);
				}
			}
			match guard(|| <&$T>::try_from(s)) {
				Err(m) => f.panic(P_ROUTE, "try_from_str", &m),
				Ok(Ok(v)) => {
					f.eq(P_ROUTE, "try_from_str.verdict", true, $ok);
					f.eq(P_ROUTE, "try_from_str.text", v.as_bytes(), b);
				}
				Ok(Err(e)) => {
					f.eq(P_ROUTE, "try_from_str.verdict", false, $ok);
					f.eq(P_ROUTE, "try_from_str.err_payload", e.0, s);
				}
			}
			match guard(|| <$TBuf>::try_from(s.to_string())) {
				Err(m) => f.panic(P_ROUTE, "try_from_string", &m),
				Ok(Ok(v)) => {
					f.eq(P_ROUTE, "try_from_string.verdict", true, $ok);
					f.eq(P_ROUTE, "try_from_string.text", v.as_bytes(), b);
				}
				Ok(Err(e)) => {
					f.eq(P_ROUTE, "try_from_string.verdict", false, $ok);
					f.eq(P_ROUTE, "try_from_string.err_payload", e.0.as_str(), s);
				}
			}
			match guard(|| <$TBuf>::from_str(s)) {
				Err(m) => f.panic(P_ROUTE, "from_str", &m),
				Ok(Ok(v)) => {
					f.eq(P_ROUTE, "from_str.verdict", true, $ok);
					f.eq(P_ROUTE, "from_str.text", v.as_bytes(), b);
				}
				Ok(Err(e)) => {
					f.eq(P_ROUTE, "from_str.verdict", false, $ok);
					f.eq(P_ROUTE, "from_str.err_payload", e.0.as_str(), s);
				}
			}
			let r = guard(|| <&$T>::deserialize(BorrowedStrDeserializer::<DeError>::new(s)).ok().map(|v| v.as_bytes().to_vec()));
			serde_verdict_bytes(f, "serde.borrowed_str", r, b, $ok);
			let r = guard(|| <$TBuf>::deserialize(StrDeserializer::<DeError>::new(s)).ok().map(|v| v.into_bytes()));
			serde_verdict_bytes(f, "serde.str", r, b, $ok);
			let r = guard(|| <$TBuf>::deserialize(StringDeserializer::<DeError>::new(s.to_string())).ok().map(|v| v.into_bytes()));
			serde_verdict_bytes(f, "serde.string", r, b, $ok);
			let j = serde_json::to_string(s).unwrap();
			let r = guard(|| serde_json::from_str::<$TBuf>(&j).ok().map(|v| v.into_bytes()));
			serde_verdict_bytes(f, "json.owned", r, b, $ok);
			if j.len() == s.len() + 2 {
				let r = guard(|| serde_json::from_str::<&$T>(&j).ok().map(|v| v.as_bytes().to_vec()));
				serde_verdict_bytes(f, "json.borrowed", r, b, $ok);
			}
		}
	}};
	(@hash yes, $f:ident, $v:ident, $owned:ident, $b:ident) => {
		let before = $v.as_bytes().to_vec();
		$f.run(&["C07", "C08"], "self_eq", || { let _ = $v == $v; let _ = hash_of($v); let _ = hash_of(&$owned); });
		$f.eq(P_OUT, "out.after_cmp_hash", $v.as_bytes(), before.as_slice());
	};
	(@hash no, $f:ident, $v:ident, $owned:ident, $b:ident) => {};
}

pub fn run(case: &Value, f: &mut Fails) {
	let ty = case["ty"].as_str().expect("ty");
	let ok = case["ok"].as_bool().expect("ok");
	let w = &case["w"];
	use iref::{iri, uri};
	match ty {
		"Uri" | "UriRef" | "Scheme" | "UAuthority" | "UUserInfo" | "UHost" | "Port" | "UPath" | "USegment"
		| "UQuery" | "UFragment" => {
			let bytes = bytes_of(w);
			let b = bytes.as_slice();
			match ty {
				"Uri" => byte_type!(f, b, ok, uri::Uri, uri::UriBuf, hash = yes),
				"UriRef" => byte_type!(f, b, ok, uri::UriRef, uri::UriRefBuf, hash = yes),
				"Scheme" => byte_type!(f, b, ok, uri::Scheme, uri::SchemeBuf, hash = yes),
				"UAuthority" => byte_type!(f, b, ok, uri::Authority, uri::AuthorityBuf, hash = yes),
				"UUserInfo" => byte_type!(f, b, ok, uri::UserInfo, uri::UserInfoBuf, hash = no),
				"UHost" => byte_type!(f, b, ok, uri::Host, uri::HostBuf, hash = no),
				"Port" => byte_type!(f, b, ok, uri::Port, uri::PortBuf, hash = yes),
				"UPath" => byte_type!(f, b, ok, uri::Path, uri::PathBuf, hash = no),
				"USegment" => byte_type!(f, b, ok, uri::Segment, uri::SegmentBuf, hash = no),
				"UQuery" => byte_type!(f, b, ok, uri::Query, uri::QueryBuf, hash = no),
				"UFragment" => byte_type!(f, b, ok, uri::Fragment, uri::FragmentBuf, hash = no),
				_ => unreachable!(),
			}
		}
		_ => {
			let Some(string) = text_of(w) else {
				// not a sequence of scalar values: cannot be offered to a `str` type
				return;
			};
			let s = string.as_str();
			match ty {
				"Iri" => str_type!(f, s, ok, iri::Iri, iri::IriBuf, hash = yes, from_vec = yes),
				"IriRef" => str_type!(f, s, ok, iri::IriRef, iri::IriRefBuf, hash = yes, from_vec = yes),
				"IAuthority" => str_type!(f, s, ok, iri::Authority, iri::AuthorityBuf, hash = yes, from_vec = no),
				"IUserInfo" => str_type!(f, s, ok, iri::UserInfo, iri::UserInfoBuf, hash = no, from_vec = no),
				"IHost" => str_type!(f, s, ok, iri::Host, iri::HostBuf, hash = no, from_vec = no),
				"IPath" => str_type!(f, s, ok, iri::Path, iri::PathBuf, hash = no, from_vec = no),
				"ISegment" => str_type!(f, s, ok, iri::Segment, iri::SegmentBuf, hash = no, from_vec = no),
				"IQuery" => str_type!(f, s, ok, iri::Query, iri::QueryBuf, hash = no, from_vec = no),
				"IFragment" => str_type!(f, s, ok, iri::Fragment, iri::FragmentBuf, hash = no, from_vec = no),
				other => panic!("harness: unknown type tag {other}"),
			}
		}
	}
}
