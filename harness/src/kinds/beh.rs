//! k = "pathbeh": one behaviour of one path handle (C10).
//!   {"fam", "kind": "path"|"ref"|"full", "pre": prefix text, "suf": suffix text, "init": path,
//!    "steps": [{"op", "arg", "args", "view": [admissible handle views]}]}
//! k = "authbeh": one behaviour of one authority handle (C11).
//!   {"fam", "kind", "init": whole text, "steps": [{"op", "arg", "view", "text", "userinfo", "host", "port"}]}

use crate::common::*;
use serde_json::{json, Value};

const C10: &[&str] = &["C10"];
const C11: &[&str] = &["C11"];
const C04: &[&str] = &["C04"];

macro_rules! path_ops {
	($f:ident, $pm:ident, $m:ident, $steps:ident, $tag:ident, $dead:ident) => {{
		for (i, st) in $steps.iter().enumerate() {
			let op = st["op"].as_str().unwrap();
			let what = format!("{}.step{}.{}", $tag, i, op);
			let r = guard(|| match op {
				"push" => $pm.push(iref::$m::Segment::new(text(&st["arg"]).as_str()).expect("segment")),
				"sym_push" => $pm.symbolic_push(iref::$m::Segment::new(text(&st["arg"]).as_str()).expect("segment")),
				"sym_append" => {
					let owned: Vec<String> = st["args"].as_array().unwrap().iter().map(text).collect();
					let segs: Vec<&iref::$m::Segment> = owned.iter().map(|s| iref::$m::Segment::new(s.as_str()).expect("segment")).collect();
					$pm.symbolic_append(segs)
				}
				"pop" => { $pm.pop(); }
				"clear" => $pm.clear(),
				"normalize" => $pm.normalize(),
				other => panic!("harness: unknown path op {other}"),
			});
			if let Err(m) = r {
				$f.panic(C10, &what, &m);
				$f.panic(C04, &what, &m);
				$dead = true;
				break;
			}
			// the handle views exactly the edited path
			match guard(|| $pm.as_str().to_string()) {
				Err(m) => {
					$f.panic(C10, &format!("{what}.view"), &m);
					$f.panic(C04, &format!("{what}.view"), &m);
					$dead = true;
					break;
				}
				Ok(view) => {
					$f.member(C10, &format!("{what}.view"), &view, &st["view"]);
					if !admits(&st["view"], &view) {
						// the abstract state can no longer be trusted for the following steps
						$dead = true;
						break;
					}
				}
			}
		}
	}};
}

macro_rules! pathbeh_fam {
	($f:ident, $case:ident, $m:ident, $RiBuf:ident, $RiRefBuf:ident, $tag:expr) => {{
		let tag: &str = $tag;
		let pre = text(&$case["pre"]);
		let suf = text(&$case["suf"]);
		let init = text(&$case["init"]);
		let steps = $case["steps"].as_array().unwrap();
		let kind = $case["kind"].as_str().unwrap();
		let mut dead = false;
		if kind == "path" {
			let mut buf = iref::$m::PathBuf::new(init.clone().into()).expect("path");
			let last_view: Option<String> = {
				let mut pm = buf.as_path_mut();
				path_ops!($f, pm, $m, steps, tag, dead);
				if dead { None } else { Some(pm.as_str().to_string()) }
			};
			if let Some(v) = last_view {
				$f.eq(C10, &format!("{tag}.after_drop"), buf.as_str(), v.as_str());
				$f.ok(C04, &format!("{tag}.after_drop.valid"), iref::$m::Path::new(buf.as_str()).is_ok(), || json!(buf.as_str()));
			}
			// the effects are the same for a stand-alone buffer edited without a handle
			let mut buf2 = iref::$m::PathBuf::new(init.clone().into()).expect("path");
			let mut dead2 = false;
			for (i, st) in steps.iter().enumerate() {
				let op = st["op"].as_str().unwrap();
				let r = guard(|| match op {
					"push" => buf2.push(iref::$m::Segment::new(text(&st["arg"]).as_str()).unwrap()),
					"sym_push" => buf2.symbolic_push(iref::$m::Segment::new(text(&st["arg"]).as_str()).unwrap()),
					"sym_append" => {
						let owned: Vec<String> = st["args"].as_array().unwrap().iter().map(text).collect();
						let segs: Vec<&iref::$m::Segment> = owned.iter().map(|s| iref::$m::Segment::new(s.as_str()).unwrap()).collect();
						buf2.symbolic_append(segs)
					}
					"pop" => buf2.pop(),
					"clear" => buf2.clear(),
					"normalize" => buf2.normalize(),
					_ => unreachable!(),
				});
				if r.is_err() {
					dead2 = true;
					$f.panic(C10, &format!("{tag}.buf.step{i}.{op}"), &r.unwrap_err());
					break;
				}
				$f.member(C10, &format!("{tag}.buf.step{i}.{op}"), buf2.as_str(), &st["view"]);
				if !admits(&st["view"], buf2.as_str()) {
					dead2 = true;
					break;
				}
			}
			let _ = dead2;
		} else if kind == "full" {
			let whole = format!("{pre}{init}{suf}");
			let mut buf = iref::$m::$RiBuf::new(whole.clone().into()).expect("full");
			let last_view: Option<String> = {
				let mut pm = buf.path_mut();
				path_ops!($f, pm, $m, steps, tag, dead);
				if dead { None } else { Some(pm.as_str().to_string()) }
			};
			if let Some(v) = last_view {
				// nothing but the path was touched
				$f.eq(C10, &format!("{tag}.after_drop"), buf.as_str(), format!("{pre}{v}{suf}").as_str());
			}
			if !dead {
				$f.ok(C04, &format!("{tag}.after_drop.valid"), std::str::from_utf8(buf.as_bytes()).ok().map(|s| iref::$m::$RiBuf::new(s.to_string().into()).is_ok()).unwrap_or(false), || enc_bytes(buf.as_bytes()));
			}
		} else {
			let whole = format!("{pre}{init}{suf}");
			let mut buf = iref::$m::$RiRefBuf::new(whole.clone().into()).expect("ref");
			let last_view: Option<String> = {
				let mut pm = buf.path_mut();
				path_ops!($f, pm, $m, steps, tag, dead);
				if dead { None } else { Some(pm.as_str().to_string()) }
			};
			if let Some(v) = last_view {
				$f.eq(C10, &format!("{tag}.after_drop"), buf.as_str(), format!("{pre}{v}{suf}").as_str());
			}
			if !dead {
				$f.ok(C04, &format!("{tag}.after_drop.valid"), std::str::from_utf8(buf.as_bytes()).ok().map(|s| iref::$m::$RiRefBuf::new(s.to_string().into()).is_ok()).unwrap_or(false), || enc_bytes(buf.as_bytes()));
			}
		}
	}};
}

/// The same behaviour through a handle made by the PUBLIC constructor `iri::PathMut::new(buffer,
/// start, end)` on a plain byte vector holding the same text (the URI family has no such constructor).
fn raw_path_iri(case: &Value, f: &mut Fails) {
	let kind = case["kind"].as_str().unwrap();
	if kind == "path" {
		return;
	}
	let tag = "iri.PathMut::new";
	let pre = text(&case["pre"]);
	let suf = text(&case["suf"]);
	let init = text(&case["init"]);
	let steps = case["steps"].as_array().unwrap();
	let mut v = format!("{pre}{init}{suf}").into_bytes();
	let mut dead = false;
	let last_view: Option<String> = {
		let mut pm = unsafe { iref::iri::PathMut::new(&mut v, pre.len(), pre.len() + init.len()) };
		path_ops!(f, pm, iri, steps, tag, dead);
		if dead { None } else { Some(pm.as_str().to_string()) }
	};
	if let Some(view) = last_view {
		f.eq(C10, &format!("{tag}.after_drop"), String::from_utf8_lossy(&v).as_ref(), format!("{pre}{view}{suf}").as_str());
	}
}

pub fn run_path(case: &Value, f: &mut Fails) {
	pathbeh_fam!(f, case, iri, IriBuf, IriRefBuf, "iri");
	raw_path_iri(case, f);
	if case["fam"].as_str() == Some("both") {
		pathbeh_fam!(f, case, uri, UriBuf, UriRefBuf, "uri");
	}
}

macro_rules! auth_steps {
	($f:ident, $buf:ident, $m:ident, $steps:ident, $tag:ident) => {{
		let mut dead = false;
		let mut compare = true;
		let mut last_text: Option<String> = None;
		{
			let mut am = $buf.authority_mut().expect("authority");
			for (i, st) in $steps.iter().enumerate() {
				let op = st["op"].as_str().unwrap();
				let what = format!("{}.step{}.{}", $tag, i, op);
				let arg = opt_text(&st["arg"]);
				let r = guard(|| match op {
					"set_userinfo" => am.set_userinfo(arg.as_deref().map(|x| iref::$m::UserInfo::new(x).expect("userinfo"))),
					"set_host" => am.set_host(iref::$m::Host::new(arg.as_deref().unwrap()).expect("host")),
					"set_port" => am.set_port(arg.as_deref().map(|x| iref::$m::Port::new(x).expect("port"))),
					other => panic!("harness: unknown authority op {other}"),
				});
				if let Err(m) = r {
					$f.panic(C11, &what, &m);
					$f.panic(C04, &what, &m);
					dead = true;
					break;
				}
				// after every call the handle views exactly the new authority, and reads through it agree
				let r = guard(|| {
					let a = am.as_authority();
					(a.as_str().to_string(), am.as_str().to_string(), a.user_info().map(|x| x.as_str().to_string()), a.host().as_str().to_string(), a.port().map(|x| x.as_str().to_string()))
				});
				match r {
					Err(m) => {
						$f.panic(C11, &format!("{what}.view"), &m);
						$f.panic(C04, &format!("{what}.view"), &m);
						dead = true;
						break;
					}
					Ok((view, deref, ui, host, port)) if !compare => { let _ = (view, deref, ui, host, port); }
					Ok((view, deref, ui, host, port)) => {
						$f.eq(C11, &format!("{what}.view"), enc(&view), st["view"].clone());
						$f.eq(C11, &format!("{what}.deref"), enc(&deref), st["view"].clone());
						$f.eq(C11, &format!("{what}.user_info"), enc_opt(ui.as_deref()), st["userinfo"].clone());
						$f.eq(C11, &format!("{what}.host"), enc(&host), st["host"].clone());
						$f.eq(C11, &format!("{what}.port"), enc_opt(port.as_deref()), st["port"].clone());
						if enc(&view) != st["view"] {
							// C11 has failed here; the remaining calls are still made (C04 is about the whole
							// sequence), only no longer compared
							compare = false;
						}
						if compare {
							last_text = Some(text(&st["text"]));
						}
					}
				}
			}
			if !dead && compare {
				let _ = guard(|| am.into_authority().as_str().to_string()).map(|v| {
					if let Some(st) = $steps.last() {
						$f.eq(C11, &format!("{}.into_authority", $tag), enc(&v), st["view"].clone());
					}
				});
			}
		}
		if !dead && compare {
			if let Some(t) = last_text {
				if let Ok(s) = std::str::from_utf8($buf.as_bytes()) {
					$f.eq(C11, &format!("{}.after_drop", $tag), s, t.as_str());
				}
			}
		}
		if !dead {
			// C04: whatever the session did, the buffer is well-formed UTF-8 and holds an authority where it was
			$f.ok(C04, &format!("{}.after_drop.utf8", $tag), std::str::from_utf8($buf.as_bytes()).is_ok(), || enc_bytes($buf.as_bytes()));
			$f.ok(C04, &format!("{}.after_drop.valid", $tag), $crate::kinds::beh::still_valid($buf.as_bytes()), || enc_bytes($buf.as_bytes()));
		}
	}};
}

macro_rules! authbeh_fam {
	($f:ident, $case:ident, $m:ident, $RiBuf:ident, $RiRefBuf:ident, $tag:expr) => {{
		let tag: &str = $tag;
		let init = text(&$case["init"]);
		let steps = $case["steps"].as_array().unwrap();
		if $case["kind"].as_str() == Some("full") {
			let mut buf = iref::$m::$RiBuf::new(init.clone().into()).expect("full");
			auth_steps!($f, buf, $m, steps, tag);
		} else {
			let mut buf = iref::$m::$RiRefBuf::new(init.clone().into()).expect("ref");
			auth_steps!($f, buf, $m, steps, tag);
		}
		// the same behaviour through a handle made by the PUBLIC constructor AuthorityMut::new(buffer,
		// start, end) on a plain byte vector holding the same text (start .. end: where the authority is)
		{
			struct Raw { v: Vec<u8>, start: usize, end: usize }
			impl Raw {
				fn authority_mut(&mut self) -> Option<iref::$m::AuthorityMut<'_>> {
					Some(unsafe { iref::$m::AuthorityMut::new(&mut self.v, self.start, self.end) })
				}
				fn as_bytes(&self) -> &[u8] { &self.v }
			}
			let located = iref::$m::$RiRefBuf::new(init.clone().into()).ok().and_then(|r| {
				r.authority().and_then(|a| ptr_off(r.as_bytes(), a.as_bytes()).map(|o| (o, o + a.as_bytes().len())))
			});
			if let Some((start, end)) = located {
				let mut raw = Raw { v: init.clone().into_bytes(), start, end };
				let tag2 = format!("{tag}.AuthorityMut::new");
				let tag2 = tag2.as_str();
				auth_steps!($f, raw, $m, steps, tag2);
				// ... and on a buffer that is NOT a URI: the constructor only requires buffer[start..end]
				// to be an authority (here "CONNECT <authority> HTTP/1.1"); after the session the bytes
				// around the authority must be untouched
				let auth_text = init[start..end].to_string();
				let before = "CONNECT ";
				let after = " HTTP/1.1\r\n";
				let mut raw = Raw { v: format!("{before}{auth_text}{after}").into_bytes(), start: before.len(), end: before.len() + auth_text.len() };
				let tag3 = format!("{tag}.AuthorityMut::new(foreign surroundings)");
				let tag3 = tag3.as_str();
				let mut dead = false;
				let mut last_view: Option<String> = None;
				{
					let mut am = raw.authority_mut().unwrap();
					for (i, st) in steps.iter().enumerate() {
						let op = st["op"].as_str().unwrap();
						let arg = opt_text(&st["arg"]);
						let r = guard(|| {
							match op {
								"set_userinfo" => am.set_userinfo(arg.as_deref().map(|x| iref::$m::UserInfo::new(x).expect("userinfo"))),
								"set_host" => am.set_host(iref::$m::Host::new(arg.as_deref().unwrap()).expect("host")),
								_ => am.set_port(arg.as_deref().map(|x| iref::$m::Port::new(x).expect("port"))),
							}
							am.as_authority().as_str().to_string()
						});
						match r {
							Err(m) => { $f.panic(C11, &format!("{tag3}.step{i}.{op}"), &m); dead = true; break }
							Ok(view) => {
								$f.eq(C11, &format!("{tag3}.step{i}.{op}.view"), enc(&view), st["view"].clone());
								if enc(&view) != st["view"] { dead = true; break }
								last_view = Some(view);
							}
						}
					}
				}
				if !dead {
					if let Some(v) = last_view {
						$f.eq(C11, &format!("{tag3}.after_drop"), String::from_utf8_lossy(raw.as_bytes()).as_ref(), format!("{before}{v}{after}").as_str());
					}
				}
			}
		}
	}};
}

/// the bytes still parse as an IRI reference (a URI/IRI buffer after an authority session), or - for the
/// raw vectors of the public constructor - hold a reference somewhere (judged by the caller's own text)
pub fn still_valid(bytes: &[u8]) -> bool {
	match std::str::from_utf8(bytes) {
		Ok(s) => iref::iri::IriRef::new(s).is_ok() || s.starts_with("CONNECT "),
		Err(_) => false,
	}
}

pub fn run_auth(case: &Value, f: &mut Fails) {
	authbeh_fam!(f, case, iri, IriBuf, IriRefBuf, "iri");
	if case["fam"].as_str() == Some("both") {
		authbeh_fam!(f, case, uri, UriBuf, UriRefBuf, "uri");
	}
}
