pub mod auth;
pub mod conv;
pub mod data;
pub mod beh;
pub mod edit;
pub mod eq;
pub mod parse;
pub mod paths;
pub mod pct;
pub mod refs;
pub mod rel;
pub mod resolve;

use crate::common::Fails;
use serde_json::Value;

/// Dispatch one case to its handler.  Unknown kinds are a harness error (exit 2), never a
/// silent skip.
pub fn run_case(case: &Value, f: &mut Fails) -> Result<(), String> {
	match case["k"].as_str() {
		Some("parse") => parse::run(case, f),
		Some("auth") => auth::run(case, f),
		Some("path") => paths::run_path(case, f),
		Some("iter") => paths::run_iter(case, f),
		Some("resolve") => resolve::run(case, f),
		Some("eqgroup") => eq::run(case, f),
		Some("pct") => pct::run(case, f),
		Some("edit") => edit::run(case, f),
		Some("pathbeh") => beh::run_path(case, f),
		Some("authbeh") => beh::run_auth(case, f),
		Some("rel") => rel::run_rel(case, f),
		Some("suffix") => rel::run_suffix(case, f),
		Some("data") => data::run(case, f),
		Some("ref") => refs::run(case, f),
		Some(k) => return Err(format!("unknown case kind {k}")),
		None => return Err("case without kind".into()),
	}
	Ok(())
}
