//! k = "data": {"w", "ok", "media": text|[-1], "b64": bool, "data": text,
//!              "dec": "bytes"|"error"|"unspecified"|"none", "bytes": [...]}  (C18)

use crate::common::*;
use iref::uri::data::{DataUrl, DataUrlBuf};
use serde_json::{json, Value};
use std::str::FromStr;

const C18: &[&str] = &["C18"];
const ROUTE: &[&str] = &["C18", "C14"];

pub fn run(case: &Value, f: &mut Fails) {
	let Some(s_owned) = text_of(&case["w"]) else { return };
	let s = s_owned.as_str();
	let ok = case["ok"].as_bool().unwrap();
	// ---- C20: the borrowed routes allocate nothing (a data URL is a borrowed URI)
	{
		use crate::alloc_count::allocs;
		use serde::de::value::{BorrowedStrDeserializer, Error as DeError};
		use serde::Deserialize;
		const C20: &[&str] = &["C20"];
		let a0 = allocs();
		let ok1 = DataUrl::new(s).is_ok();
		let a1 = allocs();
		let ok2 = <&DataUrl>::try_from(s).is_ok();
		let a2 = allocs();
		if ok1 {
			f.eq(C20, "DataUrl::new.allocs", a1 - a0, 0);
		}
		if ok2 {
			f.eq(C20, "<&DataUrl>::try_from.allocs", a2 - a1, 0);
		}
		if ok1 {
			// an accepted text through borrowed deserialisation (a rejected one builds an error message)
			let a3 = allocs();
			let r = <&DataUrl>::deserialize(BorrowedStrDeserializer::<DeError>::new(s)).is_ok();
			let a4 = allocs();
			if r {
				f.eq(C20, "<&DataUrl>::deserialize(borrowed str).allocs", a4 - a3, 0);
			}
			if let Ok(v) = DataUrl::new(s) {
				let a5 = allocs();
				let _ = (v.media_type(), v.is_base_64_encoded(), v.encoded_data(), v.parts());
				f.eq(C20, "DataUrl.accessors.allocs", allocs() - a5, 0);
			}
		}
	}
	// ---- every constructor gives the specification's verdict
	let b = f.run(C18, "DataUrl::new", || DataUrl::new(s).ok());
	let b2 = f.run(C18, "DataUrl::new(bytes)", || DataUrl::new(s.as_bytes()).is_ok());
	let b3 = f.run(C18, "<&DataUrl>::try_from", || <&DataUrl>::try_from(s).is_ok());
	let o = f.run(C18, "DataUrlBuf::new", || DataUrlBuf::new(s.as_bytes().to_vec()));
	let o2 = f.run(C18, "DataUrlBuf::from_string", || DataUrlBuf::from_string(s.to_string()));
	let o3 = f.run(C18, "DataUrlBuf::from_str", || DataUrlBuf::from_str(s).is_ok());
	let o4 = f.run(C18, "DataUrlBuf::try_from", || DataUrlBuf::try_from(s.to_string()).is_ok());
	if let Some(b) = &b {
		f.eq(C18, "borrowed.verdict", b.is_some(), ok);
	}
	if let Some(x) = b2 {
		f.eq(C18, "borrowed_bytes.verdict", x, ok);
	}
	if let Some(x) = b3 {
		f.eq(ROUTE, "try_from.verdict", x, ok);
	}
	// serde routes accept exactly what the validating constructor accepts
	{
		use serde::de::value::{BorrowedStrDeserializer, Error as DeError, StringDeserializer};
		use serde::Deserialize;
		if let Some(x) = f.run(ROUTE, "serde.borrowed", || <&DataUrl>::deserialize(BorrowedStrDeserializer::<DeError>::new(s)).is_ok()) {
			f.eq(ROUTE, "serde.borrowed.verdict", x, ok);
		}
		if let Some(x) = f.run(ROUTE, "serde.owned", || DataUrlBuf::deserialize(StringDeserializer::<DeError>::new(s.to_string())).is_ok()) {
			f.eq(ROUTE, "serde.owned.verdict", x, ok);
		}
		let j = serde_json::to_string(s).unwrap();
		if let Some(x) = f.run(ROUTE, "json.owned", || serde_json::from_str::<DataUrlBuf>(&j).is_ok()) {
			f.eq(ROUTE, "json.owned.verdict", x, ok);
		}
	}
	// ---- C08: DataUrlBuf implements Borrow<DataUrl>: same hash, same answers, lookups find the key
	if let (Some(Some(bv)), Some(Ok(ov))) = (&b, &o) {
		use std::collections::{BTreeSet, HashSet};
		use std::hash::{Hash, Hasher};
		fn h<T: Hash + ?Sized>(v: &T) -> u64 {
			hash2(v)
		}
		const C08: &[&str] = &["C08"];
		let bv: &DataUrl = bv;
		f.eq(C08, "DataUrlBuf.hash.vs_DataUrl_view", h(ov), h(bv));
		let mut hs = HashSet::new();
		hs.insert(ov.clone());
		f.ok(C08, "HashSet<DataUrlBuf>.contains(&DataUrl)", hs.contains(bv), || json!(s));
		let mut bs = BTreeSet::new();
		bs.insert(ov.clone());
		f.ok(C08, "BTreeSet<DataUrlBuf>.contains(&DataUrl)", bs.contains(bv), || json!(s));
		// another spelling of the same URI (a "." segment in the media type, an escaped letter in the
		// data): owned values must compare as their borrowed views do
		for other in [s.replacen('/', "/./", 1), format!("{s}%41"), format!("{s}A"), s.replacen("data:", "data:./", 1)] {
			if let (Ok(b2), Ok(o2)) = (DataUrl::new(other.as_str()), DataUrlBuf::new(other.as_bytes().to_vec())) {
				f.eq(C08, "DataUrlBuf.eq.vs_DataUrl_views", *ov == o2, *bv == *b2);
				f.eq(C08, "DataUrlBuf.cmp.vs_DataUrl_views", ov.cmp(&o2) as i8, bv.cmp(b2) as i8);
				if *bv == *b2 {
					f.eq(C08, "DataUrlBuf.hash.equal_values", h(ov), h(&o2));
				}
			}
		}
	}
	if let Some(x) = &o {
		f.eq(C18, "owned.verdict", x.is_ok(), ok);
		if let Err(e) = x {
			f.eq(C18, "owned.err_payload", e.0.as_slice(), s.as_bytes());
		}
	}
	if let Some(x) = &o2 {
		f.eq(ROUTE, "from_string.verdict", x.is_ok(), ok);
		if let Err(e) = x {
			f.eq(C18, "from_string.err_payload", e.0.as_str(), s);
		}
	}
	if let Some(x) = o3 {
		f.eq(ROUTE, "from_str.verdict", x, ok);
	}
	if let Some(x) = o4 {
		f.eq(ROUTE, "try_from_string.verdict", x, ok);
	}
	if !ok {
		return;
	}
	let media = opt_text(&case["media"]);
	let b64 = case["b64"].as_bool().unwrap();
	let data = text(&case["data"]);
	let dec = case["dec"].as_str().unwrap();
	let bytes = bytes_of(&case["bytes"]);
	// ---- borrowed form: re-scans the text
	if let Some(Some(d)) = b {
		f.eq(C18, "borrowed.text", d.as_str(), s);
		if let Some(m) = f.run(C18, "borrowed.media_type", || d.media_type().map(|x| x.to_string())) {
			f.eq(C18, "borrowed.media_type", m, media.clone());
		}
		if let Some(x) = f.run(C18, "borrowed.is_base_64_encoded", || d.is_base_64_encoded()) {
			f.eq(C18, "borrowed.is_base_64_encoded", x, b64);
		}
		if let Some(x) = f.run(C18, "borrowed.encoded_data", || d.encoded_data().to_string()) {
			f.eq(C18, "borrowed.encoded_data", x.as_str(), data.as_str());
		}
		if let Some((m, bb, dd)) = f.run(C18, "borrowed.parts", || { let p = d.parts(); (p.media_type.map(|x| x.to_string()), p.base_64, p.data.to_string()) }) {
			f.eq(C18, "borrowed.parts.media_type", m.clone(), media.clone());
			f.eq(C18, "borrowed.parts.base_64", bb, b64);
			f.eq(C18, "borrowed.parts.data", dd.as_str(), data.as_str());
			let re = format!("data:{}{},{}", m.unwrap_or_default(), if bb { ";base64" } else { "" }, dd);
			f.eq(C18, "borrowed.reassemble", re.as_str(), s);
		}
		if let Some(r) = f.run(C18, "borrowed.decoded_data", || d.decoded_data().map(|c| c.to_vec()).ok()) {
			match dec {
				"bytes" => f.eq(C18, "borrowed.decoded_data", r, Some(bytes.clone())),
				"error" => f.eq(C18, "borrowed.decoded_data.error", r.is_none(), true),
				_ => {}
			}
		}
		f.eq(C18, "borrowed.as_uri", d.as_uri().as_str(), s);
		if let Some(j) = f.run(ROUTE, "serialize", || serde_json::to_string(d).ok()) {
			f.eq(ROUTE, "serialize", j, serde_json::to_string(s).ok());
		}
	}
	// ---- owned form: stored offsets; must agree with the borrowed one
	if let Some(Ok(d)) = o {
		f.eq(C18, "owned.text", d.as_str(), s);
		if let Some(m) = f.run(C18, "owned.media_type", || d.media_type().map(|x| x.to_string())) {
			f.eq(C18, "owned.media_type", m, media.clone());
		}
		f.eq(C18, "owned.is_base_64_encoded", d.is_base_64_encoded(), b64);
		if let Some(x) = f.run(C18, "owned.encoded_data", || d.encoded_data().to_string()) {
			f.eq(C18, "owned.encoded_data", x.as_str(), data.as_str());
		}
		if let Some((m, bb, dd)) = f.run(C18, "owned.parts", || { let p = d.parts(); (p.media_type.map(|x| x.to_string()), p.base_64, p.data.to_string()) }) {
			f.eq(C18, "owned.parts.media_type", m.clone(), media.clone());
			f.eq(C18, "owned.parts.base_64", bb, b64);
			f.eq(C18, "owned.parts.data", dd.as_str(), data.as_str());
			let re = format!("data:{}{},{}", m.unwrap_or_default(), if bb { ";base64" } else { "" }, dd);
			f.eq(C18, "owned.reassemble", re.as_str(), s);
		}
		if let Some(r) = f.run(C18, "owned.decoded_data", || d.decoded_data().map(|c| c.to_vec()).ok()) {
			match dec {
				"bytes" => f.eq(C18, "owned.decoded_data", r, Some(bytes.clone())),
				"error" => f.eq(C18, "owned.decoded_data.error", r.is_none(), true),
				_ => {}
			}
		}
		// the borrowed view of the owned value
		let v: &DataUrl = d.as_data_url();
		if let Some(m) = f.run(C18, "owned.as_data_url.media_type", || v.media_type().map(|x| x.to_string())) {
			f.eq(C18, "owned.as_data_url.media_type", m, media.clone());
		}
		let _ = json!(null);
	}
}
