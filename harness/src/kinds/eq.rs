//! k = "eqgroup": {"ty": tag, "vals": [{"w": text, "canon": <class key computed by TLC>}, ...]}
//!
//! C07: for ALL pairs of the group, `==` is exactly "same class key", never panics.
//! C08: cmp is a total order whose Equal coincides with ==, equal values hash identically,
//!      results do not depend on borrowed/owned, views interchangeable as map keys agree.

use crate::common::*;
use serde_json::{json, Value};
use std::borrow::Borrow;
use std::cmp::Ordering;
use std::collections::hash_map::DefaultHasher;
use std::collections::{BTreeSet, HashSet};
use std::hash::{Hash, Hasher};

const C07: &[&str] = &["C07"];
const C08: &[&str] = &["C08"];
const C0708: &[&str] = &["C07", "C08"];

/// under std's SipHash AND under a hasher that is sensitive to the sequence of `write` calls
fn h<T: Hash + ?Sized>(v: &T) -> u64 {
	hash2(v)
}

fn sign(o: Ordering) -> i8 {
	match o {
		Ordering::Less => -1,
		Ordering::Equal => 0,
		Ordering::Greater => 1,
	}
}

/// Record at most `cap` failures of one kind per group (one defect fails thousands of pairs).
struct Capped<'a> {
	f: &'a mut Fails,
	seen: std::collections::HashMap<String, u32>,
	cap: u32,
}

impl<'a> Capped<'a> {
	fn fail(&mut self, props: &[&str], what: &str, detail: Value) {
		let n = self.seen.entry(what.to_string()).or_insert(0);
		*n += 1;
		if *n <= self.cap {
			self.f.list.push(json!({"props": props, "what": what, "detail": detail}));
		}
	}
	fn check(&mut self) {
		self.f.checks += 1;
	}
	fn finish(self) {
		for (what, n) in self.seen {
			if n > self.cap {
				self.f.list.push(json!({"props": ["C07", "C08"], "what": format!("{what}.more"), "detail": {"further_failures_of_this_kind": n - self.cap}}));
			}
		}
	}
}

/// All-pairs laws on borrowed values.
fn group<T: ?Sized + Eq + Ord + Hash>(f: &mut Fails, tag: &str, vals: &[&T], texts: &[String], canon: &[&Value]) {
	let n = vals.len();
	let mut c = Capped { f, seen: Default::default(), cap: 3 };
	// hashes (a panic is a C08/C07 failure: comparison and hashing must be total)
	let mut hashes: Vec<Option<u64>> = Vec::with_capacity(n);
	for i in 0..n {
		c.check();
		match guard(|| h(vals[i])) {
			Ok(x) => hashes.push(Some(x)),
			Err(m) => {
				hashes.push(None);
				c.fail(C08, &format!("{tag}.hash.panic"), json!({"a": texts[i], "panic": m}));
			}
		}
	}
	let mut ord = vec![0i8; n * n];
	let mut ord_ok = vec![false; n * n];
	for i in 0..n {
		for j in 0..n {
			let same = canon[i] == canon[j];
			c.check();
			match guard(|| (vals[i] == vals[j], vals[i] != vals[j])) {
				Err(m) => c.fail(C07, &format!("{tag}.eq.panic"), json!({"a": texts[i], "b": texts[j], "panic": m})),
				Ok((e, ne)) => {
					if e != same {
						c.fail(C07, &format!("{tag}.eq"), json!({"a": texts[i], "b": texts[j], "observed": e, "expected": same}));
					}
					if ne == e {
						c.fail(C07, &format!("{tag}.ne"), json!({"a": texts[i], "b": texts[j]}));
					}
				}
			}
			c.check();
			match guard(|| (vals[i].cmp(vals[j]), vals[i].partial_cmp(vals[j]))) {
				Err(m) => c.fail(C08, &format!("{tag}.cmp.panic"), json!({"a": texts[i], "b": texts[j], "panic": m})),
				Ok((o, po)) => {
					ord[i * n + j] = sign(o);
					ord_ok[i * n + j] = true;
					if po != Some(o) {
						c.fail(C08, &format!("{tag}.partial_cmp"), json!({"a": texts[i], "b": texts[j]}));
					}
					// Equal coincides with equality (of the class keys)
					if (o == Ordering::Equal) != same {
						c.fail(C08, &format!("{tag}.cmp.equal_iff_eq"), json!({"a": texts[i], "b": texts[j], "cmp": sign(o), "same_class": same}));
					}
				}
			}
			if same {
				c.check();
				if let (Some(a), Some(b)) = (hashes[i], hashes[j]) {
					if a != b {
						c.fail(C08, &format!("{tag}.hash.equal_values"), json!({"a": texts[i], "b": texts[j]}));
					}
				}
			}
		}
	}
	// antisymmetry + transitivity through a rank certificate: the observed relation is a
	// total preorder iff there is a ranking r with ord[i][j] = sign(r[i] - r[j]) for all pairs.
	// (restricted to the values all of whose comparisons returned: a panic is reported above)
	let clean: Vec<usize> = (0..n).filter(|i| (0..n).all(|j| ord_ok[i * n + j] && ord_ok[j * n + i])).collect();
	let mut rank = vec![0usize; n];
	for &i in &clean {
		rank[i] = clean.iter().filter(|&&j| ord[i * n + j] > 0).count();
	}
	for &i in &clean {
		for &j in &clean {
			c.check();
			let exp = sign(rank[i].cmp(&rank[j]));
			if ord[i * n + j] != exp {
				c.fail(C08, &format!("{tag}.cmp.total_order"), json!({"a": texts[i], "b": texts[j], "cmp": ord[i * n + j], "rank_a": rank[i], "rank_b": rank[j]}));
			}
		}
	}
	c.finish();
}

/// Owned values agree with the borrowed ones (eq / cmp / hash do not depend on the holder).
fn owned_agree<T: ?Sized + Eq + Ord + Hash, B: Eq + Ord + Hash + Borrow<T>>(
	f: &mut Fails,
	tag: &str,
	vals: &[&T],
	owned: &[B],
	texts: &[String],
) {
	let n = vals.len();
	let mut c = Capped { f, seen: Default::default(), cap: 3 };
	for i in 0..n {
		c.check();
		if let (Ok(a), Ok(b)) = (guard(|| h(vals[i])), guard(|| h(&owned[i]))) {
			if a != b {
				c.fail(C08, &format!("{tag}.hash.owned_vs_borrowed"), json!({"a": texts[i]}));
			}
		}
		for j in 0..n {
			c.check();
			let b = guard(|| (vals[i] == vals[j], vals[i].cmp(vals[j])));
			let o = guard(|| (owned[i] == owned[j], owned[i].cmp(&owned[j]), owned[i].partial_cmp(&owned[j])));
			match (b, o) {
				(Ok((be, bc)), Ok((oe, oc, opc))) => {
					if be != oe || bc != oc || opc != Some(oc) {
						c.fail(C08, &format!("{tag}.owned_vs_borrowed"), json!({"a": texts[i], "b": texts[j]}));
					}
				}
				(Ok(_), Err(m)) => c.fail(C08, &format!("{tag}.owned.panic"), json!({"a": texts[i], "b": texts[j], "panic": m})),
				_ => {}
			}
		}
	}
	// collections keyed by the owned type find what was inserted, through the borrowed view
	let ok = guard(|| {
		let mut bad = Vec::new();
		let hs: HashSet<&B> = owned.iter().collect();
		let bs: BTreeSet<&B> = owned.iter().collect();
		for (i, o) in owned.iter().enumerate() {
			if !hs.contains(o) || !bs.contains(o) {
				bad.push(i);
			}
		}
		bad
	});
	c.check();
	match ok {
		Ok(bad) => {
			for i in bad {
				c.fail(C08, &format!("{tag}.collections.lookup"), json!({"a": texts[i]}));
			}
		}
		Err(m) => c.fail(C08, &format!("{tag}.collections.panic"), json!({"panic": m})),
	}
	c.finish();
}

/// Views of one value that may be interchanged as map keys (`Borrow`) hash and compare alike.
fn views_agree<K: Eq + Hash + Ord + Borrow<Q>, Q: ?Sized + Eq + Hash + Ord>(
	f: &mut Fails,
	tag: &str,
	keys: Vec<K>,
	texts: &[String],
) {
	let mut c = Capped { f, seen: Default::default(), cap: 3 };
	let r = guard(|| {
		let mut bad: Vec<(usize, &'static str)> = Vec::new();
		for (i, k) in keys.iter().enumerate() {
			let q: &Q = k.borrow();
			if h(k) != h(q) {
				bad.push((i, "hash"));
			}
		}
		let hs: HashSet<&K> = keys.iter().collect();
		let _ = hs;
		bad
	});
	c.check();
	match r {
		Ok(bad) => {
			for (i, w) in bad {
				c.fail(C08, &format!("{tag}.borrow.{w}"), json!({"a": texts[i]}));
			}
		}
		Err(m) => c.fail(C08, &format!("{tag}.borrow.panic"), json!({"panic": m})),
	}
	// insert owned keys, look up through the borrowed view
	let r = guard(|| {
		let mut miss = Vec::new();
		let mut hs: HashSet<K> = HashSet::new();
		let mut bs: BTreeSet<K> = BTreeSet::new();
		let mut qs: Vec<usize> = Vec::new();
		for (i, _) in keys.iter().enumerate() {
			qs.push(i);
		}
		// move keys into the sets, keep clones of the borrowed form as texts: look up by re-borrowing
		let n = keys.len();
		let mut kept: Vec<K> = Vec::with_capacity(n);
		for k in keys {
			kept.push(k);
		}
		for k in kept.iter() {
			let q: &Q = k.borrow();
			let _ = q;
		}
		// build sets of references to avoid requiring Clone
		let href: HashSet<&K> = kept.iter().collect();
		let _ = href;
		for k in kept {
			hs.insert(k);
		}
		for k in hs.iter() {
			let q: &Q = k.borrow();
			if !hs.contains(q) {
				miss.push(0usize);
			}
		}
		let moved: Vec<K> = hs.into_iter().collect();
		for k in moved {
			bs.insert(k);
		}
		for k in bs.iter() {
			let q: &Q = k.borrow();
			if !bs.contains(q) {
				miss.push(1usize);
			}
		}
		miss.len()
	});
	c.check();
	match r {
		Ok(0) => {}
		Ok(n) => c.fail(C08, &format!("{tag}.borrow.lookup"), json!({"misses": n})),
		Err(m) => c.fail(C08, &format!("{tag}.borrow.lookup.panic"), json!({"panic": m})),
	}
	c.finish();
}

/// Comparing a value with a plain string is plain text comparison (C14): for all pairs of the
/// group, `v_i == text_j` exactly when the two texts are the same string.
macro_rules! streq {
	($f:ident, $ty:expr, $texts:ident, $T:ty) => {{
		let vals: Vec<&$T> = $texts.iter().map(|s| <$T>::new(s.as_str()).expect("spec-valid value")).collect();
		let mut c = Capped { f: $f, seen: Default::default(), cap: 3 };
		for i in 0..vals.len() {
			for j in 0..vals.len() {
				c.check();
				let same_text = $texts[i] == $texts[j];
				match guard(|| (*vals[i] == *$texts[j].as_str(), *vals[i] == $texts[j].as_str(), *vals[i] == $texts[j])) {
					Err(m) => c.fail(&["C14"], &format!("{}.str_eq.panic", $ty), json!({"a": $texts[i], "s": $texts[j], "panic": m})),
					Ok((a, b, d)) => {
						if a != same_text || b != same_text || d != same_text {
							c.fail(&["C14"], &format!("{}.str_eq", $ty), json!({"a": $texts[i], "s": $texts[j], "observed": [a, b, d], "expected": same_text}));
						}
					}
				}
			}
		}
		c.finish();
	}};
}

/// Component types only provide `== &str`.
macro_rules! streq_ref {
	($f:ident, $ty:expr, $texts:ident, $T:ty) => {{
		let vals: Vec<&$T> = $texts.iter().map(|s| <$T>::new(s.as_str()).expect("spec-valid value")).collect();
		let mut c = Capped { f: $f, seen: Default::default(), cap: 3 };
		for i in 0..vals.len() {
			for j in 0..vals.len() {
				c.check();
				let same_text = $texts[i] == $texts[j];
				match guard(|| *vals[i] == $texts[j].as_str()) {
					Err(m) => c.fail(&["C14"], &format!("{}.str_eq.panic", $ty), json!({"a": $texts[i], "s": $texts[j], "panic": m})),
					Ok(a) => {
						if a != same_text {
							c.fail(&["C14"], &format!("{}.str_eq", $ty), json!({"a": $texts[i], "s": $texts[j], "observed": a, "expected": same_text}));
						}
					}
				}
			}
		}
		c.finish();
	}};
}

macro_rules! simple {
	($f:ident, $ty:expr, $texts:ident, $canon:ident, $T:ty, $TBuf:ty) => {{
		let vals: Vec<&$T> = $texts.iter().map(|s| <$T>::new(s.as_str()).expect("spec-valid value")).collect();
		group::<$T>($f, $ty, &vals, &$texts, &$canon);
		let owned: Vec<$TBuf> = vals.iter().map(|v| (*v).to_owned()).collect();
		owned_agree::<$T, $TBuf>($f, $ty, &vals, &owned, &$texts);
	}};
}

/// C13: the URI type and its IRI twin, on the same (ASCII) texts, compare, order and hash alike.
fn family_agree<U: ?Sized + PartialEq + Ord + Hash, I: ?Sized + PartialEq + Ord + Hash>(
	f: &mut Fails,
	tag: &str,
	us: &[&U],
	is: &[&I],
	texts: &[String],
) {
	let n = us.len();
	let mut c = Capped { f, seen: Default::default(), cap: 3 };
	let hu: Vec<Option<u64>> = us.iter().map(|v| guard(|| h(*v)).ok()).collect();
	let hi: Vec<Option<u64>> = is.iter().map(|v| guard(|| h(*v)).ok()).collect();
	for i in 0..n {
		for j in 0..n {
			c.check();
			if let (Ok((eu, ou)), Ok((ei, oi))) = (guard(|| (*us[i] == *us[j], us[i].cmp(us[j]))), guard(|| (*is[i] == *is[j], is[i].cmp(is[j])))) {
				if eu != ei {
					c.fail(&["C13"], &format!("{tag}.eq.uri_vs_iri"), json!({"a": texts[i], "b": texts[j], "uri": eu, "iri": ei}));
				}
				if ou != oi {
					c.fail(&["C13"], &format!("{tag}.cmp.uri_vs_iri"), json!({"a": texts[i], "b": texts[j], "uri": sign(ou), "iri": sign(oi)}));
				}
			}
			if let (Some(a), Some(b), Some(x), Some(y)) = (hu[i], hu[j], hi[i], hi[j]) {
				if (a == b) != (x == y) {
					c.fail(&["C13"], &format!("{tag}.hash.uri_vs_iri"), json!({"a": texts[i], "b": texts[j]}));
				}
			}
		}
	}
	c.finish();
}

macro_rules! twins {
	($f:ident, $tag:expr, $texts:ident, $U:ty, $I:ty) => {{
		let us: Vec<&$U> = $texts.iter().map(|s| <$U>::new(s.as_str()).expect("spec-valid value")).collect();
		let is: Vec<&$I> = $texts.iter().map(|s| <$I>::new(s.as_str()).expect("URI value is an IRI value")).collect();
		family_agree::<$U, $I>($f, $tag, &us, &is, &$texts);
	}};
}

/// One heterogeneous comparison impl `L: PartialEq<R> + PartialOrd<R>`: its results must be
/// those of the homogeneous comparison of the same two values (class key for ==, `base` for
/// the order), whatever the holders (owned, borrowed, reference to borrowed) are.
fn cross<L: ?Sized + PartialEq<R> + PartialOrd<R>, R: ?Sized>(
	f: &mut Fails,
	tag: &str,
	salt: usize,
	ls: &[&L],
	rs: &[&R],
	texts: &[String],
	canon: &[&Value],
	base: &[i8],
) {
	let n = ls.len();
	let mut c = Capped { f, seen: Default::default(), cap: 3 };
	for i in 0..n {
		for j in 0..n {
			// a deterministic eighth of the pairs per impl (a wrong impl is wrong on most pairs)
			if (i * 31 + j * 17 + salt) % 8 != 0 && i != j {
				continue;
			}
			c.check();
			let same = canon[i] == canon[j];
			match guard(|| (*ls[i] == *rs[j], ls[i].partial_cmp(rs[j]))) {
				Err(m) => c.fail(C0708, &format!("{tag}.panic"), json!({"a": texts[i], "b": texts[j], "panic": m})),
				Ok((e, o)) => {
					if e != same {
						c.fail(C0708, &format!("{tag}.eq"), json!({"a": texts[i], "b": texts[j], "observed": e, "expected": same}));
					}
					if base[i * n + j] != 2 && o.map(sign) != Some(base[i * n + j]) {
						c.fail(C08, &format!("{tag}.partial_cmp"), json!({"a": texts[i], "b": texts[j], "observed": o.map(sign), "same_values_homogeneous_cmp": base[i * n + j]}));
					}
				}
			}
		}
	}
	c.finish();
}

macro_rules! cross_family {
	($f:ident, $texts:ident, $canon:ident, $Ri:ty, $RiBuf:ty, $RiRef:ty, $RiRefBuf:ty, $own:expr, $fam:expr) => {{
		let full: Vec<&$Ri> = $texts.iter().map(|s| <$Ri>::new(s.as_str()).unwrap()).collect();
		let rf: Vec<&$RiRef> = $texts.iter().map(|s| <$RiRef>::new(s.as_str()).unwrap()).collect();
		let fullb: Vec<$RiBuf> = full.iter().map(|v| (*v).to_owned()).collect();
		let rfb: Vec<$RiRefBuf> = rf.iter().map(|v| (*v).to_owned()).collect();
		let fullbr: Vec<&$RiBuf> = fullb.iter().collect();
		let rfbr: Vec<&$RiRefBuf> = rfb.iter().collect();
		let fullrr: Vec<&&$Ri> = full.iter().collect();
		let rfrr: Vec<&&$RiRef> = rf.iter().collect();
		let n = full.len();
		// homogeneous order of the reference views (2 = the comparison panicked)
		let mut base = vec![2i8; n * n];
		for i in 0..n {
			for j in 0..n {
				if let Ok(o) = guard(|| rf[i].cmp(rf[j])) {
					base[i * n + j] = sign(o);
				}
			}
		}
		let t = |a: &str, b: &str| format!("{}.{}_vs_{}", $fam, a, b);
		cross::<$Ri, &$Ri>($f, &t("full", "ref_to_full"), 1, &full, &fullrr, &$texts, &$canon, &base);
		cross::<$Ri, $RiBuf>($f, &t("full", "fullbuf"), 2, &full, &fullbr, &$texts, &$canon, &base);
		cross::<$Ri, $RiRef>($f, &t("full", "ref"), 3, &full, &rf, &$texts, &$canon, &base);
		cross::<$Ri, &$RiRef>($f, &t("full", "ref_to_ref"), 4, &full, &rfrr, &$texts, &$canon, &base);
		cross::<$Ri, $RiRefBuf>($f, &t("full", "refbuf"), 5, &full, &rfbr, &$texts, &$canon, &base);
		cross::<$RiRef, &$RiRef>($f, &t("ref", "ref_to_ref"), 6, &rf, &rfrr, &$texts, &$canon, &base);
		cross::<$RiRef, $RiRefBuf>($f, &t("ref", "refbuf"), 7, &rf, &rfbr, &$texts, &$canon, &base);
		cross::<$RiRef, $Ri>($f, &t("ref", "full"), 8, &rf, &full, &$texts, &$canon, &base);
		cross::<$RiRef, &$Ri>($f, &t("ref", "ref_to_full"), 9, &rf, &fullrr, &$texts, &$canon, &base);
		cross::<$RiRef, $RiBuf>($f, &t("ref", "fullbuf"), 10, &rf, &fullbr, &$texts, &$canon, &base);
		cross::<$RiBuf, $Ri>($f, &t("fullbuf", "full"), 11, &fullbr, &full, &$texts, &$canon, &base);
		cross::<$RiBuf, &$Ri>($f, &t("fullbuf", "ref_to_full"), 12, &fullbr, &fullrr, &$texts, &$canon, &base);
		cross::<$RiBuf, $RiRef>($f, &t("fullbuf", "ref"), 13, &fullbr, &rf, &$texts, &$canon, &base);
		cross::<$RiBuf, &$RiRef>($f, &t("fullbuf", "ref_to_ref"), 14, &fullbr, &rfrr, &$texts, &$canon, &base);
		cross::<$RiBuf, $RiRefBuf>($f, &t("fullbuf", "refbuf"), 15, &fullbr, &rfbr, &$texts, &$canon, &base);
		cross::<$RiRefBuf, $RiRef>($f, &t("refbuf", "ref"), 16, &rfbr, &rf, &$texts, &$canon, &base);
		cross::<$RiRefBuf, &$RiRef>($f, &t("refbuf", "ref_to_ref"), 17, &rfbr, &rfrr, &$texts, &$canon, &base);
		cross::<$RiRefBuf, $Ri>($f, &t("refbuf", "full"), 18, &rfbr, &full, &$texts, &$canon, &base);
		cross::<$RiRefBuf, &$Ri>($f, &t("refbuf", "ref_to_full"), 19, &rfbr, &fullrr, &$texts, &$canon, &base);
		cross::<$RiRefBuf, $RiBuf>($f, &t("refbuf", "fullbuf"), 20, &rfbr, &fullbr, &$texts, &$canon, &base);
	}};
}

pub fn run(case: &Value, f: &mut Fails) {
	let ty = case["ty"].as_str().unwrap();
	let vals = case["vals"].as_array().unwrap();
	let texts: Vec<String> = vals.iter().map(|v| text(&v["w"])).collect();
	let canon: Vec<&Value> = vals.iter().map(|v| &v["canon"]).collect();
	use iref::{iri, uri};
	match ty {
		"Scheme" => simple!(f, ty, texts, canon, uri::Scheme, uri::SchemeBuf),
		"Port" => simple!(f, ty, texts, canon, uri::Port, uri::PortBuf),
		"UAuthority" => {
			simple!(f, ty, texts, canon, uri::Authority, uri::AuthorityBuf);
			streq_ref!(f, ty, texts, uri::Authority);
			twins!(f, "UAuthority", texts, uri::Authority, iri::Authority);
		}
		"UUserInfo" => {
			simple!(f, ty, texts, canon, uri::UserInfo, uri::UserInfoBuf);
			streq_ref!(f, ty, texts, uri::UserInfo);
			twins!(f, "UUserInfo", texts, uri::UserInfo, iri::UserInfo);
		}
		"UHost" => {
			simple!(f, ty, texts, canon, uri::Host, uri::HostBuf);
			streq_ref!(f, ty, texts, uri::Host);
			twins!(f, "UHost", texts, uri::Host, iri::Host);
		}
		"USegment" => {
			simple!(f, ty, texts, canon, uri::Segment, uri::SegmentBuf);
			twins!(f, "USegment", texts, uri::Segment, iri::Segment);
		}
		"UQuery" => {
			simple!(f, ty, texts, canon, uri::Query, uri::QueryBuf);
			streq_ref!(f, ty, texts, uri::Query);
			twins!(f, "UQuery", texts, uri::Query, iri::Query);
		}
		"UFragment" => {
			simple!(f, ty, texts, canon, uri::Fragment, uri::FragmentBuf);
			streq_ref!(f, ty, texts, uri::Fragment);
			twins!(f, "UFragment", texts, uri::Fragment, iri::Fragment);
		}
		"IAuthority" => {
			simple!(f, ty, texts, canon, iri::Authority, iri::AuthorityBuf);
			streq_ref!(f, ty, texts, iri::Authority);
		}
		"IUserInfo" => {
			simple!(f, ty, texts, canon, iri::UserInfo, iri::UserInfoBuf);
			streq_ref!(f, ty, texts, iri::UserInfo);
		}
		"IHost" => {
			simple!(f, ty, texts, canon, iri::Host, iri::HostBuf);
			streq_ref!(f, ty, texts, iri::Host);
		}
		"ISegment" => simple!(f, ty, texts, canon, iri::Segment, iri::SegmentBuf),
		"IQuery" => {
			simple!(f, ty, texts, canon, iri::Query, iri::QueryBuf);
			streq_ref!(f, ty, texts, iri::Query);
		}
		"IFragment" => {
			simple!(f, ty, texts, canon, iri::Fragment, iri::FragmentBuf);
			streq_ref!(f, ty, texts, iri::Fragment);
		}
		"UPath" => {
			let vals: Vec<&uri::Path> = texts.iter().map(|s| uri::Path::new(s.as_str()).expect("valid")).collect();
			group::<uri::Path>(f, ty, &vals, &texts, &canon);
			streq!(f, ty, texts, uri::Path);
			twins!(f, "UPath", texts, uri::Path, iri::Path);
		}
		"IPath" => {
			let vals: Vec<&iri::Path> = texts.iter().map(|s| iri::Path::new(s.as_str()).expect("valid")).collect();
			group::<iri::Path>(f, ty, &vals, &texts, &canon);
			streq!(f, ty, texts, iri::Path);
		}
		"UriRef" => {
			simple!(f, ty, texts, canon, uri::UriRef, uri::UriRefBuf);
			streq!(f, ty, texts, uri::UriRef);
			twins!(f, "UriRef", texts, uri::UriRef, iri::IriRef);
		}
		"IriRef" => {
			simple!(f, ty, texts, canon, iri::IriRef, iri::IriRefBuf);
			streq!(f, ty, texts, iri::IriRef);
		}
		"Uri" => {
			simple!(f, ty, texts, canon, uri::Uri, uri::UriBuf);
			streq!(f, ty, texts, uri::Uri);
			let keys: Vec<uri::UriBuf> = texts.iter().map(|s| uri::UriBuf::new(s.clone().into_bytes()).unwrap()).collect();
			views_agree::<uri::UriBuf, uri::Uri>(f, "Uri.as_Uri", keys.clone(), &texts);
			views_agree::<uri::UriBuf, uri::UriRef>(f, "Uri.as_UriRef", keys.clone(), &texts);
			views_agree::<uri::UriBuf, iri::Iri>(f, "Uri.as_Iri", keys.clone(), &texts);
			views_agree::<uri::UriBuf, iri::IriRef>(f, "Uri.as_IriRef", keys, &texts);
			cross_uri(f, &texts, &canon);
			twins!(f, "Uri", texts, uri::Uri, iri::Iri);
			cross_family!(f, texts, canon, uri::Uri, uri::UriBuf, uri::UriRef, uri::UriRefBuf, 0, "uri");
		}
		"Iri" => {
			simple!(f, ty, texts, canon, iri::Iri, iri::IriBuf);
			streq!(f, ty, texts, iri::Iri);
			let keys: Vec<iri::IriBuf> = texts.iter().map(|s| iri::IriBuf::new(s.clone()).unwrap()).collect();
			views_agree::<iri::IriBuf, iri::Iri>(f, "Iri.as_Iri", keys.clone(), &texts);
			views_agree::<iri::IriBuf, iri::IriRef>(f, "Iri.as_IriRef", keys, &texts);
			cross_iri(f, &texts, &canon);
			cross_family!(f, texts, canon, iri::Iri, iri::IriBuf, iri::IriRef, iri::IriRefBuf, 0, "iri");
		}
		other => panic!("harness: eqgroup of unknown type {other}"),
	}
}

/// Cross-type comparisons the library provides between a full IRI and a reference.
fn cross_iri(f: &mut Fails, texts: &[String], canon: &[&Value]) {
	use iref::iri::{Iri, IriRef};
	let a: Vec<&Iri> = texts.iter().map(|s| Iri::new(s.as_str()).unwrap()).collect();
	let b: Vec<&IriRef> = texts.iter().map(|s| IriRef::new(s.as_str()).unwrap()).collect();
	let n = a.len();
	let mut c = Capped { f, seen: Default::default(), cap: 3 };
	for i in 0..n {
		c.check();
		if let (Ok(x), Ok(y)) = (guard(|| h(a[i])), guard(|| h(b[i]))) {
			if x != y {
				c.fail(C08, "Iri.hash.vs_IriRef_view", json!({"a": texts[i]}));
			}
		}
		for j in 0..n {
			c.check();
			let same = canon[i] == canon[j];
			if let Ok((e1, e2, o1)) = guard(|| (*a[i] == *b[j], *b[j] == *a[i], a[i].partial_cmp(b[j]))) {
				if e1 != same || e2 != same {
					c.fail(C0708, "Iri.eq.cross_IriRef", json!({"a": texts[i], "b": texts[j], "expected": same}));
				}
				if (o1 == Some(Ordering::Equal)) != same {
					c.fail(C08, "Iri.cmp.cross_IriRef", json!({"a": texts[i], "b": texts[j]}));
				}
			}
		}
	}
	c.finish();
}

fn cross_uri(f: &mut Fails, texts: &[String], canon: &[&Value]) {
	use iref::uri::{Uri, UriRef};
	let a: Vec<&Uri> = texts.iter().map(|s| Uri::new(s.as_str()).unwrap()).collect();
	let b: Vec<&UriRef> = texts.iter().map(|s| UriRef::new(s.as_str()).unwrap()).collect();
	let n = a.len();
	let mut c = Capped { f, seen: Default::default(), cap: 3 };
	for i in 0..n {
		c.check();
		if let (Ok(x), Ok(y)) = (guard(|| h(a[i])), guard(|| h(b[i]))) {
			if x != y {
				c.fail(C08, "Uri.hash.vs_UriRef_view", json!({"a": texts[i]}));
			}
		}
		// the same text seen through the IRI family hashes and compares alike (C13)
		c.check();
		if let (Ok(x), Ok(y)) = (guard(|| h(a[i])), guard(|| h(a[i].as_iri()))) {
			if x != y {
				c.fail(&["C08", "C13"], "Uri.hash.vs_Iri_view", json!({"a": texts[i]}));
			}
		}
		for j in 0..n {
			c.check();
			let same = canon[i] == canon[j];
			if let Ok((e1, e2, o1)) = guard(|| (*a[i] == *b[j], *b[j] == *a[i], a[i].partial_cmp(b[j]))) {
				if e1 != same || e2 != same {
					c.fail(C0708, "Uri.eq.cross_UriRef", json!({"a": texts[i], "b": texts[j], "expected": same}));
				}
				if (o1 == Some(Ordering::Equal)) != same {
					c.fail(C08, "Uri.cmp.cross_UriRef", json!({"a": texts[i], "b": texts[j]}));
				}
			}
		}
	}
	c.finish();
}
