//! k = "ref": a valid reference with its specification-computed decomposition.
//!
//! {"fam": "both"|"iri", "w": text, "p": {scheme, authority, path, query, fragment},
//!  "off": {.. [byte offset, byte len] | [-1,-1] ..}, "full": bool,
//!  "a": {userinfo, host, port} | {"none": true}, "aoff": {...}, "base": text}
//!
//! C02: five accessors and parts() = expectation, components valid, recomposition = text,
//!      same through borrowed and owned views.       C03: authority accessors / parts().
//! C16: base().   C20: every returned slice lies at the expected offset of the input, no
//!      allocation.   C13: URI and IRI families agree on ASCII input; conversions.

use crate::alloc_count::allocs;
use crate::common::*;
use serde_json::{json, Value};

const C02: &[&str] = &["C02"];
const C03: &[&str] = &["C03"];
const C16: &[&str] = &["C16"];
const C20: &[&str] = &["C20"];
const C13: &[&str] = &["C13"];
const C01: &[&str] = &["C01"];

fn exp_off(v: &Value) -> Option<(usize, usize)> {
	let a = v.as_array()?;
	if a[0].as_i64()? < 0 {
		None
	} else {
		Some((a[0].as_u64()? as usize, a[1].as_u64()? as usize))
	}
}

fn off_of(outer: &[u8], inner: Option<&[u8]>) -> Value {
	match inner {
		None => json!([-1, -1]),
		Some(i) => match ptr_off(outer, i) {
			Some(o) => json!([o, i.len()]),
			None => json!(["external", i.len()]),
		},
	}
}

macro_rules! authority_checks {
	($f:ident, $tag:expr, $case:ident, $auth:expr, $m:ident) => {{
		let a = $auth;
		let ea = &$case["a"];
		let eo = &$case["aoff"];
		let tag: &str = $tag;
		let ab = a.as_bytes();
		let a0 = allocs();
		let ui = a.user_info();
		let host = a.host();
		let port = a.port();
		let parts = a.parts();
		let a1 = allocs();
		$f.eq(C20, &format!("{tag}.authority.allocs"), a1 - a0, 0);
		$f.eq(C03, &format!("{tag}.user_info"), enc_opt(ui.map(|x| x.as_str())), ea["userinfo"].clone());
		$f.eq(C03, &format!("{tag}.host"), enc(host.as_str()), ea["host"].clone());
		$f.eq(C03, &format!("{tag}.port"), enc_opt(port.map(|x| x.as_str())), ea["port"].clone());
		$f.eq(C03, &format!("{tag}.parts.user_info"), enc_opt(parts.user_info.map(|x| x.as_str())), ea["userinfo"].clone());
		$f.eq(C03, &format!("{tag}.parts.host"), enc(parts.host.as_str()), ea["host"].clone());
		$f.eq(C03, &format!("{tag}.parts.port"), enc_opt(parts.port.map(|x| x.as_str())), ea["port"].clone());
		// every part is a valid value of its own type
		if let Some(u) = ui {
			$f.ok(C03, &format!("{tag}.user_info.valid"), iref::$m::UserInfo::new(u.as_str()).is_ok(), || json!(u.as_str()));
		}
		$f.ok(C03, &format!("{tag}.host.valid"), iref::$m::Host::new(host.as_str()).is_ok(), || json!(host.as_str()));
		if let Some(p) = port {
			$f.ok(C03, &format!("{tag}.port.valid"), iref::$m::Port::new(p.as_str()).is_ok(), || json!(p.as_str()));
		}
		// [userinfo "@"] host [":" port] reassembles the authority
		let mut re = String::new();
		if let Some(u) = parts.user_info {
			re.push_str(u.as_str());
			re.push('@');
		}
		re.push_str(parts.host.as_str());
		if let Some(p) = parts.port {
			re.push(':');
			re.push_str(p.as_str());
		}
		$f.eq(C03, &format!("{tag}.reassemble"), re.as_str(), a.as_str());
		// zero-copy: sub-slices of the authority at the specified offsets
		$f.eq(C20, &format!("{tag}.user_info.off"), off_of(ab, ui.map(|x| x.as_bytes())), eo["userinfo"].clone());
		$f.eq(C20, &format!("{tag}.host.off"), off_of(ab, Some(host.as_bytes())), eo["host"].clone());
		$f.eq(C20, &format!("{tag}.port.off"), off_of(ab, port.map(|x| x.as_bytes())), eo["port"].clone());
	}};
}

/// Checks on one view `v` (borrowed or owned deref) of one of the four reference types.
macro_rules! view_checks {
	($f:ident, $tag:expr, $case:ident, $s:ident, $v:expr, $m:ident, scheme = $sch:expr, pscheme = $psch:expr) => {{
		let v = $v;
		let tag: &str = $tag;
		let p = &$case["p"];
		let eo = &$case["off"];
		let sb = $s.as_bytes();
		let a0 = allocs();
		let scheme: Option<&iref::$m::Scheme> = $sch(v);
		let authority = v.authority();
		let path = v.path();
		let query = v.query();
		let fragment = v.fragment();
		let parts = v.parts();
		let base = v.base();
		let a1 = allocs();
		$f.eq(C20, &format!("{tag}.accessors.allocs"), a1 - a0, 0);
		$f.eq(C02, &format!("{tag}.scheme"), enc_opt(scheme.map(|x| x.as_str())), p["scheme"].clone());
		$f.eq(C02, &format!("{tag}.authority"), enc_opt(authority.map(|x| x.as_str())), p["authority"].clone());
		$f.eq(C02, &format!("{tag}.path"), enc(path.as_str()), p["path"].clone());
		$f.eq(C02, &format!("{tag}.query"), enc_opt(query.map(|x| x.as_str())), p["query"].clone());
		$f.eq(C02, &format!("{tag}.fragment"), enc_opt(fragment.map(|x| x.as_str())), p["fragment"].clone());
		let pscheme: Option<&iref::$m::Scheme> = $psch(&parts);
		$f.eq(C02, &format!("{tag}.parts.scheme"), enc_opt(pscheme.map(|x| x.as_str())), p["scheme"].clone());
		$f.eq(C02, &format!("{tag}.parts.authority"), enc_opt(parts.authority.map(|x| x.as_str())), p["authority"].clone());
		$f.eq(C02, &format!("{tag}.parts.path"), enc(parts.path.as_str()), p["path"].clone());
		$f.eq(C02, &format!("{tag}.parts.query"), enc_opt(parts.query.map(|x| x.as_str())), p["query"].clone());
		$f.eq(C02, &format!("{tag}.parts.fragment"), enc_opt(parts.fragment.map(|x| x.as_str())), p["fragment"].clone());
		// each returned component is a valid value of its component type
		if let Some(x) = scheme {
			$f.ok(C02, &format!("{tag}.scheme.valid"), iref::$m::Scheme::new(x.as_str()).is_ok(), || json!(x.as_str()));
		}
		if let Some(x) = authority {
			$f.ok(C02, &format!("{tag}.authority.valid"), iref::$m::Authority::new(x.as_str()).is_ok(), || json!(x.as_str()));
		}
		$f.ok(C02, &format!("{tag}.path.valid"), iref::$m::Path::new(path.as_str()).is_ok(), || json!(path.as_str()));
		if let Some(x) = query {
			$f.ok(C02, &format!("{tag}.query.valid"), iref::$m::Query::new(x.as_str()).is_ok(), || json!(x.as_str()));
		}
		if let Some(x) = fragment {
			$f.ok(C02, &format!("{tag}.fragment.valid"), iref::$m::Fragment::new(x.as_str()).is_ok(), || json!(x.as_str()));
		}
		// RFC 3986 5.3 recomposition of what was returned reproduces the text
		let mut re = String::new();
		if let Some(x) = pscheme {
			re.push_str(x.as_str());
			re.push(':');
		}
		if let Some(x) = parts.authority {
			re.push_str("//");
			re.push_str(x.as_str());
		}
		re.push_str(parts.path.as_str());
		if let Some(x) = parts.query {
			re.push('?');
			re.push_str(x.as_str());
		}
		if let Some(x) = parts.fragment {
			re.push('#');
			re.push_str(x.as_str());
		}
		$f.eq(C02, &format!("{tag}.recompose"), re.as_str(), $s);
		// zero-copy (C20): sub-slices of the input at the specified offsets, in order
		$f.eq(C20, &format!("{tag}.scheme.off"), off_of(sb, scheme.map(|x| x.as_bytes())), eo["scheme"].clone());
		$f.eq(C20, &format!("{tag}.authority.off"), off_of(sb, authority.map(|x| x.as_bytes())), eo["authority"].clone());
		$f.eq(C20, &format!("{tag}.path.off"), off_of(sb, Some(path.as_bytes())), eo["path"].clone());
		$f.eq(C20, &format!("{tag}.query.off"), off_of(sb, query.map(|x| x.as_bytes())), eo["query"].clone());
		$f.eq(C20, &format!("{tag}.fragment.off"), off_of(sb, fragment.map(|x| x.as_bytes())), eo["fragment"].clone());
		$f.eq(C20, &format!("{tag}.parts.path.off"), off_of(sb, Some(parts.path.as_bytes())), eo["path"].clone());
		// base (C16) is a leading part of the text
		$f.eq(C16, &format!("{tag}.base"), enc(base.as_str()), $case["base"].clone());
		$f.eq(C20, &format!("{tag}.base.off"), off_of(sb, Some(base.as_bytes())), json!([0, base.as_bytes().len()]));
		if let Some(a) = authority {
			if exp_off(&eo["authority"]).is_some() && !$case["a"]["none"].as_bool().unwrap_or(false) {
				authority_checks!($f, &format!("{tag}.authority"), $case, a, $m);
			}
		}
	}};
}

fn iri_ref_scheme(v: &iref::iri::IriRef) -> Option<&iref::iri::Scheme> { v.scheme() }
fn iri_full_scheme(v: &iref::iri::Iri) -> Option<&iref::iri::Scheme> { Some(v.scheme()) }
fn iri_ref_pscheme<'a>(p: &iref::iri::IriRefParts<'a>) -> Option<&'a iref::iri::Scheme> { p.scheme }
fn iri_full_pscheme<'a>(p: &iref::iri::IriParts<'a>) -> Option<&'a iref::iri::Scheme> { Some(p.scheme) }
fn uri_ref_scheme(v: &iref::uri::UriRef) -> Option<&iref::uri::Scheme> { v.scheme() }
fn uri_full_scheme(v: &iref::uri::Uri) -> Option<&iref::uri::Scheme> { Some(v.scheme()) }
fn uri_ref_pscheme<'a>(p: &iref::uri::UriRefParts<'a>) -> Option<&'a iref::uri::Scheme> { p.scheme }
fn uri_full_pscheme<'a>(p: &iref::uri::UriParts<'a>) -> Option<&'a iref::uri::Scheme> { Some(p.scheme) }

pub fn run(case: &Value, f: &mut Fails) {
	let s_owned = text(&case["w"]);
	let s = s_owned.as_str();
	let fam = case["fam"].as_str().unwrap();
	let full = case["full"].as_bool().unwrap();
	use iref::{iri, uri};

	// ---------------- the complete conversion lattice (C13)
	super::conv::run(case, f, s);

	// ---------------- IRI family
	{
		let a0 = allocs();
		let r = iri::IriRef::new(s);
		f.eq(C20, "iri.ref.new.allocs", allocs() - a0, 0);
		match r {
			Err(_) => f.ok(if fam == "both" { &["C01", "C13"] } else { C01 }, "iri.ref.new", false, || json!("a specification-valid reference is rejected")),
			Ok(v) => {
				view_checks!(f, "iri.ref", case, s, v, iri,
					scheme = iri_ref_scheme,
					pscheme = iri_ref_pscheme);
				let owned = v.to_owned();
				let os = owned.as_str().to_string();
				let os = os.as_str();
				f.eq(C02, "iri.refbuf.text", os, s);
				let ov: &iri::IriRef = &owned;
				view_checks_owned(f, case, ov.as_str());
				// conversions ref -> full (C13)
				f.eq(C13, "iri.ref.as_iri", v.as_iri().is_some(), full);
				if let Some(i) = v.as_iri() {
					f.eq(C13, "iri.ref.as_iri.text", i.as_str(), s);
				}
				match owned.clone().try_into_iri() {
					Ok(i) => {
						f.eq(C13, "iri.refbuf.try_into_iri", true, full);
						f.eq(C13, "iri.refbuf.try_into_iri.text", i.as_str(), s);
					}
					Err(e) => {
						f.eq(C13, "iri.refbuf.try_into_iri", false, full);
						f.eq(C13, "iri.refbuf.try_into_iri.err", e.0.as_str(), s);
					}
				}
				let ascii = fam == "both";
				f.eq(C13, "iri.ref.as_uri_ref", v.as_uri_ref().is_some(), ascii);
				f.eq(C13, "iri.ref.as_uri", v.as_uri().is_some(), ascii && full);
			}
		}
		let r = iri::Iri::new(s);
		match r {
			Err(_) => f.eq(if fam == "both" { &["C01", "C13"] } else { C01 }, "iri.full.new", false, full),
			Ok(v) => {
				f.eq(C01, "iri.full.new", true, full);
				if full {
					view_checks!(f, "iri.full", case, s, v, iri,
						scheme = iri_full_scheme,
						pscheme = iri_full_pscheme);
					f.eq(C13, "iri.full.as_iri_ref.text", v.as_iri_ref().as_str(), s);
					f.eq(C13, "iri.fullbuf.into_iri_ref.text", v.to_owned().into_iri_ref().as_str(), s);
				}
			}
		}
	}
	// ---------------- URI family (ASCII texts only)
	if fam == "both" {
		let a0 = allocs();
		let r = uri::UriRef::new(s);
		f.eq(C20, "uri.ref.new.allocs", allocs() - a0, 0);
		match r {
			Err(_) => f.ok(C01, "uri.ref.new", false, || json!("a specification-valid reference is rejected")),
			Ok(v) => {
				view_checks!(f, "uri.ref", case, s, v, uri,
					scheme = uri_ref_scheme,
					pscheme = uri_ref_pscheme);
				let owned = v.to_owned();
				f.eq(C02, "uri.refbuf.text", owned.as_str(), s);
				f.eq(C13, "uri.ref.as_uri", v.as_uri().is_some(), full);
				match owned.clone().try_into_uri() {
					Ok(i) => {
						f.eq(C13, "uri.refbuf.try_into_uri", true, full);
						f.eq(C13, "uri.refbuf.try_into_uri.text", i.as_str(), s);
					}
					Err(e) => {
						f.eq(C13, "uri.refbuf.try_into_uri", false, full);
						f.eq(C13, "uri.refbuf.try_into_uri.err", e.0.as_str(), s);
					}
				}
				f.eq(C13, "uri.ref.as_iri_ref.text", v.as_iri_ref().as_str(), s);
				f.eq(C13, "uri.refbuf.into_iri_ref.text", owned.clone().into_iri_ref().as_str(), s);
			}
		}
		match uri::Uri::new(s) {
			Err(_) => f.eq(C01, "uri.full.new", false, full),
			Ok(v) => {
				f.eq(C01, "uri.full.new", true, full);
				if full {
					view_checks!(f, "uri.full", case, s, v, uri,
						scheme = uri_full_scheme,
						pscheme = uri_full_pscheme);
					f.eq(C13, "uri.full.as_iri.text", v.as_iri().as_str(), s);
					f.eq(C13, "uri.full.as_iri_ref.text", v.as_iri_ref().as_str(), s);
					f.eq(C13, "uri.full.as_uri_ref.text", v.as_uri_ref().as_str(), s);
				}
			}
		}
	}
}

/// The owned view goes through `Deref` to the same accessors; what must additionally hold is
/// that the owned text is the same and that its components read the same (C02 "the same
/// through borrowed and owned views").
fn view_checks_owned(f: &mut Fails, case: &Value, s: &str) {
	use iref::iri;
	let owned = iri::IriRefBuf::new(s.to_string()).unwrap();
	let p = &case["p"];
	f.eq(C02, "iri.refbuf.scheme", enc_opt(owned.scheme().map(|x| x.as_str())), p["scheme"].clone());
	f.eq(C02, "iri.refbuf.authority", enc_opt(owned.authority().map(|x| x.as_str())), p["authority"].clone());
	f.eq(C02, "iri.refbuf.path", enc(owned.path().as_str()), p["path"].clone());
	f.eq(C02, "iri.refbuf.query", enc_opt(owned.query().map(|x| x.as_str())), p["query"].clone());
	f.eq(C02, "iri.refbuf.fragment", enc_opt(owned.fragment().map(|x| x.as_str())), p["fragment"].clone());
	let parts = owned.parts();
	f.eq(C02, "iri.refbuf.parts.path", enc(parts.path.as_str()), p["path"].clone());
	f.eq(C02, "iri.refbuf.parts.authority", enc_opt(parts.authority.map(|x| x.as_str())), p["authority"].clone());
}
