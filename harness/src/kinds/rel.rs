//! k = "rel":    {"fam", "a", "b"}              -> event "rel"    (C15, judged by TLC)
//! k = "suffix": {"fam", "what", "v", "p"}      -> event "suffix" (C16, judged by TLC)
//!
//! These kinds carry no expectation: what the real code returns is recorded as an event and
//! validated afterwards by spec/trace/Trace_Events.tla.

use crate::common::*;
use serde_json::{json, Value};

macro_rules! rel_fam {
	($f:ident, $a:ident, $b:ident, $m:ident, $Ri:ident, $fam:expr) => {{
		let (Ok(a), Ok(b)) = (iref::$m::$Ri::new($a), iref::$m::$Ri::new($b)) else {
			$f.ok(&["C01"], "rel.inputs", false, || json!([$a, $b]));
			return;
		};
		let r = guard(|| a.relative_to(b));
		let mut ev = json!({"ev": "rel", "fam": $fam, "a": enc($a), "b": enc($b),
			"a_after": enc(a.as_str()), "b_after": enc(b.as_str())});
		match r {
			Err(m) => {
				ev["panic"] = json!(true);
				ev["r"] = json!([]);
				ev["msg"] = json!(m);
			}
			Ok(r) => {
				ev["panic"] = json!(false);
				ev["r"] = enc(r.as_str());
				// the implementation's own round trip, for the record (not judged here)
				let rt = guard(|| r.resolved(b) == *a);
				ev["impl_round_trip"] = json!(rt.ok());
			}
		}
		$f.obs.push(ev);
		$f.checks += 1;
	}};
}

pub fn run_rel(case: &Value, f: &mut Fails) {
	let a_owned = text(&case["a"]);
	let b_owned = text(&case["b"]);
	let (a, b) = (a_owned.as_str(), b_owned.as_str());
	rel_fam!(f, a, b, iri, Iri, "iri");
	if a.is_ascii() && b.is_ascii() {
		rel_fam!(f, a, b, uri, Uri, "uri");
	}
}

macro_rules! suffix_fam {
	($f:ident, $case:ident, $v:ident, $p:ident, $m:ident, $Ri:ident, $RiRef:ident, $fam:expr) => {{
		let what = $case["what"].as_str().unwrap();
		let mut ev = json!({"ev": "suffix", "fam": $fam, "what": what, "v": enc($v), "p": enc($p)});
		if what == "path" {
			let (Ok(v), Ok(p)) = (iref::$m::Path::new($v), iref::$m::Path::new($p)) else { return };
			match guard(|| v.suffix(p)) {
				Err(m) => {
					ev["panic"] = json!(true);
					ev["msg"] = json!(m);
					ev["some"] = json!(false);
					ev["suffix"] = json!([]);
				}
				Ok(s) => {
					ev["panic"] = json!(false);
					ev["some"] = json!(s.is_some());
					ev["suffix"] = s.as_ref().map(|x| enc(x.as_str())).unwrap_or(json!([]));
				}
			}
			ev["query"] = json!([-1]);
			ev["fragment"] = json!([-1]);
		} else {
			let (Ok(v), Ok(p)) = (iref::$m::$Ri::new($v), iref::$m::$Ri::new($p)) else { return };
			match guard(|| v.suffix(p)) {
				Err(m) => {
					ev["panic"] = json!(true);
					ev["msg"] = json!(m);
					ev["some"] = json!(false);
					ev["suffix"] = json!([]);
					ev["query"] = json!([-1]);
					ev["fragment"] = json!([-1]);
				}
				Ok(None) => {
					ev["panic"] = json!(false);
					ev["some"] = json!(false);
					ev["suffix"] = json!([]);
					ev["query"] = json!([-1]);
					ev["fragment"] = json!([-1]);
				}
				Ok(Some((s, q, fr))) => {
					ev["panic"] = json!(false);
					ev["some"] = json!(true);
					ev["suffix"] = enc(s.as_str());
					ev["query"] = enc_opt(q.map(|x| x.as_str()));
					ev["fragment"] = enc_opt(fr.map(|x| x.as_str()));
				}
			}
			// the reference types give the same answer
			if let (Ok(vr), Ok(pr)) = (iref::$m::$RiRef::new($v), iref::$m::$RiRef::new($p)) {
				if let (Ok(x), Ok(y)) = (guard(|| v.suffix(p).map(|t| t.0.as_str().to_string())), guard(|| vr.suffix(pr).map(|t| t.0.as_str().to_string()))) {
					$f.eq(&["C16"], "suffix.ref_vs_full", x, y);
				}
			}
		}
		$f.obs.push(ev);
		$f.checks += 1;
	}};
}

pub fn run_suffix(case: &Value, f: &mut Fails) {
	let v_owned = text(&case["v"]);
	let p_owned = text(&case["p"]);
	let (v, p) = (v_owned.as_str(), p_owned.as_str());
	suffix_fam!(f, case, v, p, iri, Iri, IriRef, "iri");
	if v.is_ascii() && p.is_ascii() {
		suffix_fam!(f, case, v, p, uri, Uri, UriRef, "uri");
	}
}
