//! Conformance harness for iref: executes the *real* library on cases computed by the TLA+
//! specification (TLC) and reports every observation that differs from the expectation.
//!
//! The harness contains no oracle: every expected value is computed by TLC (direction A) or
//! every observation is shipped back to TLC (direction B, trace validation).  The only
//! judgements made here are equality and set membership.

pub mod alloc_count;
pub mod common;
pub mod kinds;

pub use common::*;
