------------------------------- MODULE Suffix -------------------------------
(* C15 (relativisation judged through the specification's own resolver and   *)
(* equivalence) and C16 (suffix with respect to a prefix).                   *)
EXTENDS Resolve, Equiv

FullTy(fam) == RefType(fam, "full")
RefTy(fam)  == RefType(fam, "ref")

(* r is an acceptable value of "a relative to b" *)
RelOk(fam, a, b, r) ==
    /\ InLang(RefTy(fam), r)
    /\ \E t \in ResolveSet(fam, b, r) : Equiv(FullTy(fam), t, a)

(* C16: the suffix of value v w.r.t. prefix p exists exactly when both are absolute or *)
(* both relative and the prefix's normalized segments lead the value's.               *)
RECURSIVE DecSegs(_)
DecSegs(ss) == IF ss = <<>> THEN <<>> ELSE <<PctDecode(Head(ss))>> \o DecSegs(Tail(ss))

PathHasSuffix(v, p) ==
    /\ IsAbs(v) = IsAbs(p)
    /\ IsPrefixOf(DecSegs(NormSegs(p)), DecSegs(NormSegs(v)))
PathSuffixSegs(v, p) == Drop(NormSegs(v), Len(NormSegs(p)))

RefHasSuffix(v, p) ==
    LET V == Parts(v)  Q == Parts(p)
    IN  /\ V.scheme = Q.scheme
        /\ (V.authority = NULL) = (Q.authority = NULL)
        /\ (V.authority # NULL => CanonAuth(V.authority) = CanonAuth(Q.authority))
        /\ PathHasSuffix(V.path, Q.path)
=============================================================================
