------------------------------- MODULE Equiv -------------------------------
(***************************************************************************)
(* C07: the documented normalising equivalence.  Canon(v) is a normal form *)
(* such that two values are equivalent exactly when their Canon are equal: *)
(* scheme and port literally; user info, host, segments, query, fragment   *)
(* as percent-decoded octets; paths as (absoluteness, dot-free segments).  *)
(***************************************************************************)
EXTENDS Parts, PathOps, Pct

DecOpt(x) == IF x = NULL THEN NULL ELSE PctDecode(x)

CanonAuth(a) ==
    LET A == AuthParts(a)
    IN  [userinfo |-> DecOpt(A.userinfo), host |-> PctDecode(A.host), port |-> A.port]

RECURSIVE DecAll(_)
DecAll(ss) == IF ss = <<>> THEN <<>> ELSE <<PctDecode(Head(ss))>> \o DecAll(Tail(ss))

CanonPath(p) == [abs |-> IsAbs(p), segs |-> DecAll(NormSegs(p))]

CanonRef(w) ==
    LET P == Parts(w)
    IN  [scheme |-> P.scheme,
         authority |-> IF P.authority = NULL THEN [none |-> TRUE] ELSE CanonAuth(P.authority),
         path |-> CanonPath(P.path),
         query |-> DecOpt(P.query), fragment |-> DecOpt(P.fragment)]

(* by type tag (see Lang.AllTypes) *)
Canon(ty, w) ==
    CASE ty \in {"Uri", "UriRef", "Iri", "IriRef"} -> CanonRef(w)
      [] ty \in {"UAuthority", "IAuthority"} -> CanonAuth(w)
      [] ty \in {"UPath", "IPath"} -> CanonPath(w)
      [] ty \in {"Scheme", "Port"} -> [lit |-> w]
      [] OTHER -> [dec |-> PctDecode(w)]

Equiv(ty, a, b) == Canon(ty, a) = Canon(ty, b)
=============================================================================
