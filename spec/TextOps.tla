------------------------------ MODULE TextOps ------------------------------
(* Operators on texts (finite sequences of naturals). *)
EXTENDS Integers, Sequences, FiniteSets, Chars

NULL == <<-1>>           \* an absent component (a present-but-empty one is <<>>)

RECURSIVE FirstIdxFrom(_, _, _)
FirstIdxFrom(s, S, i) ==
    IF i > Len(s) THEN Len(s) + 1
    ELSE IF s[i] \in S THEN i ELSE FirstIdxFrom(s, S, i + 1)
(* index of the first element of s that is in S, Len(s)+1 if none *)
FirstIdx(s, S) == FirstIdxFrom(s, S, 1)

RECURSIVE LastIdxFrom(_, _, _)
LastIdxFrom(s, S, i) ==
    IF i < 1 THEN 0
    ELSE IF s[i] \in S THEN i ELSE LastIdxFrom(s, S, i - 1)
(* index of the last element of s that is in S, 0 if none *)
LastIdx(s, S) == LastIdxFrom(s, S, Len(s))

Has(s, c) == FirstIdx(s, {c}) <= Len(s)

StartsWith(s, p) == Len(s) >= Len(p) /\ SubSeq(s, 1, Len(p)) = p
EndsWith(s, p) == Len(s) >= Len(p) /\ SubSeq(s, Len(s) - Len(p) + 1, Len(s)) = p
Drop(s, n) == SubSeq(s, n + 1, Len(s))
Take(s, n) == SubSeq(s, 1, IF n > Len(s) THEN Len(s) ELSE n)
(* SubSeq clamped to the sequence *)
Sub(s, a, b) == SubSeq(s, a, IF b > Len(s) THEN Len(s) ELSE b)
LastOf(s) == s[Len(s)]
FrontOf(s) == SubSeq(s, 1, Len(s) - 1)

(* Split s at every occurrence of c: always at least one piece. *)
RECURSIVE Split(_, _)
Split(s, c) ==
    LET i == FirstIdx(s, {c})
    IN  IF i > Len(s) THEN <<s>>
        ELSE <<SubSeq(s, 1, i - 1)>> \o Split(Drop(s, i), c)

RECURSIVE Flat(_)
Flat(ss) == IF ss = <<>> THEN <<>> ELSE Head(ss) \o Flat(Tail(ss))

RECURSIVE JoinWith(_, _)
JoinWith(ss, c) ==
    IF ss = <<>> THEN <<>>
    ELSE IF Len(ss) = 1 THEN ss[1]
    ELSE ss[1] \o <<c>> \o JoinWith(Tail(ss), c)

IsPrefixOf(p, s) == Len(p) <= Len(s) /\ SubSeq(s, 1, Len(p)) = p
=============================================================================
