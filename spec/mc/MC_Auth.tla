------------------------------ MODULE MC_Auth ------------------------------
(* C03: enumerate exactly the valid authorities of length <= MaxLen over    *)
(* Alphabet (derivative walk of authority / iauthority), check the design   *)
(* theorems of the section 3.2 decomposition, print each as a case.         *)
EXTENDS Admit, Ranges, TLC, Json

CONSTANTS Fam, Alphabet, MaxLen
VARIABLES w, r
vars == <<w, r>>

AuthTy == IF Fam = "uri" THEN "UAuthority" ELSE "IAuthority"
UiTy   == IF Fam = "uri" THEN "UUserInfo" ELSE "IUserInfo"
HostTy == IF Fam = "uri" THEN "UHost" ELSE "IHost"
IsAscii(t) == \A i \in 1..Len(t) : t[i] < 128

AuthOK(a) ==
    LET A == AuthParts(a)
    IN  /\ RecomposeAuth(A) = a
        /\ A.userinfo # NULL => InLang(UiTy, A.userinfo)
        /\ InLang(HostTy, A.host)
        /\ A.port # NULL => InLang("Port", A.port)
        \* embedded in a reference, the authority reads back as itself
        /\ Parts(<<cSLASH, cSLASH>> \o a).authority = a

Case(a) == [k |-> "auth", fam |-> IF IsAscii(a) THEN "both" ELSE "iri", w |-> a,
            a |-> AuthParts(a), aoff |-> AuthOff(a)]
Emit(a) == PrintT(ToJson(Case(a)))

Init == w = <<>> /\ r = LangOf(AuthTy) /\ Emit(<<>>)
Next == /\ Len(w) < MaxLen
        /\ \E c \in Alphabet :
              /\ r' = Deriv(r, c)
              /\ r' # Empty
              /\ w' = Append(w, c)
              /\ (Nullable(r') => Emit(w'))
Theorems == Nullable(r) => AuthOK(w)
=============================================================================
