CONSTANTS
  BaseSegs = 3
  RefSegs = 3
  Fam = "uri"
INIT Init
NEXT Next
INVARIANT Theorems
CHECK_DEADLOCK FALSE
