INIT Init
NEXT Next
