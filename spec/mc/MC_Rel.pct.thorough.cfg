CONSTANTS
  SegsA = 3
  SegsB = 2
  Fam = "iri"
  Mode = "pct"
INIT Init
NEXT Next
INVARIANT Satisfiable
INVARIANT SuffixTheorem
CHECK_DEADLOCK FALSE
