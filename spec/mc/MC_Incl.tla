------------------------------ MODULE MC_Incl ------------------------------
(***************************************************************************)
(* C13, complete part: the language facts every unchecked cast between the *)
(* four kinds relies on, decided on the complete product of derivative     *)
(* automata (words of every length):                                       *)
(*  (1) for each URI type U and its IRI counterpart I:  L(U) = L(I) /\     *)
(*      ASCII*  (hence every URI is an IRI with identical text, and an IRI *)
(*      converts to a URI exactly when the URI grammar accepts its text);  *)
(*  (2) for both families: w in L(X) iff w in L(X-reference) and the first *)
(*      of ":", "/", "?", "#" in w is a ":" (a reference converts to a     *)
(*      full URI/IRI exactly when it has a scheme).                        *)
(***************************************************************************)
EXTENDS Admit, TLC, SequencesExt, FiniteSetsExt

VARIABLES goal, r1, r2, ph
vars == <<goal, r1, r2, ph>>

Pairs == {"Uri", "UriRef", "UAuthority", "UUserInfo", "UHost", "UPath", "USegment", "UQuery", "UFragment"}
Fams == {"uri", "iri"}

CutsOf(a, b, top) == SetToSortSeq({c \in Cuts(a) \cup Cuts(b) \cup {58, 59, 47, 48, 63, 64, 35, 36} : c > 0 /\ c <= top} \cup {0, top + 1}, <)
RepsOf(a, b, top) == LET cs == CutsOf(a, b, top) IN {cs[i] : i \in 1..(Len(cs) - 1)}

Init == \/ /\ goal \in {<<"ascii", u>> : u \in Pairs}
           /\ r1 = LangOf(goal[2]) /\ r2 = LangOf(IriOf(goal[2])) /\ ph = 0
        \/ /\ goal \in {<<"scheme", f>> : f \in Fams}
           /\ r1 = LangOf(RefType(goal[2], "full")) /\ r2 = LangOf(RefType(goal[2], "ref")) /\ ph = 0

Top == IF goal[1] = "ascii" THEN 127 ELSE IF goal[2] = "uri" THEN 255 ELSE MaxScalar
StartR1 == IF goal[1] = "ascii" THEN LangOf(goal[2]) ELSE LangOf(RefType(goal[2], "full"))
StartR2 == IF goal[1] = "ascii" THEN LangOf(IriOf(goal[2])) ELSE LangOf(RefType(goal[2], "ref"))

Next == /\ ~(r1 = Empty /\ r2 = Empty)
        /\ \E c \in RepsOf(StartR1, StartR2, Top) :
              /\ ~(goal[1] = "scheme" /\ goal[2] = "iri" /\ c >= SurrLo /\ c <= SurrHi)
              /\ r1' = Deriv(r1, c) /\ r2' = Deriv(r2, c)
              /\ ph' = IF ph # 0 THEN ph ELSE IF c = 58 THEN 1 ELSE IF c \in {47, 63, 35} THEN 2 ELSE 0
        /\ goal' = goal

Facts == IF goal[1] = "ascii" THEN Nullable(r1) = Nullable(r2)
         ELSE Nullable(r1) = (Nullable(r2) /\ ph = 1)
=============================================================================
