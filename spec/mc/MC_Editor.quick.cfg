CONSTANTS
  MaxLen = 7
  Fam = "iri"
  Rich = FALSE
INIT Init
NEXT Next
INVARIANT Closed
CHECK_DEADLOCK FALSE
