----------------------------- MODULE MC_SegIter -----------------------------
(***************************************************************************)
(* C12: every path of <= MaxSegs segments over Vocab (absolute and         *)
(* relative), and for each path EVERY interleaving of next / next_back of  *)
(* length (number of segments + 2), i.e. two calls past exhaustion.        *)
(* Each maximal behaviour is printed and replayed on the real iterators.   *)
(***************************************************************************)
EXTENDS SegIter, TLC, Json

CONSTANTS Vocab, MaxSegs

VARIABLES phase, abs, segs, it, calls, ys
vars == <<phase, abs, segs, it, calls, ys>>

P == Join(abs, segs)
IsAsciiP == \A i \in 1..Len(P) : P[i] < 128

Init == /\ phase = "build" /\ abs \in BOOLEAN /\ segs = <<>>
        /\ it = [i |-> 0, j |-> 0] /\ calls = <<>> /\ ys = <<>>

Grow == /\ phase = "build" /\ Len(segs) < MaxSegs
        /\ \E s \in Vocab : segs' = Append(segs, s)
        /\ UNCHANGED <<phase, abs, it, calls, ys>>

\* only texts that read back as the list they were built from are distinct paths
Start == /\ phase = "build" /\ Segs(P) = segs /\ IsAbs(P) = abs
         /\ phase' = "iter" /\ it' = ItInit(P)
         /\ UNCHANGED <<abs, segs, calls, ys>>

Emit == PrintT(ToJson([k |-> "iter", fam |-> IF IsAsciiP THEN "both" ELSE "iri", p |-> P,
                       segs |-> segs, calls |-> calls', yields |-> ys']))

CallFront == /\ phase = "iter" /\ Len(calls) < Len(segs) + 2
         /\ calls' = Append(calls, 0) /\ ys' = Append(ys, ItFront(P, it)) /\ it' = ItAfterFront(it)
         /\ UNCHANGED <<phase, abs, segs>>
         /\ (Len(calls') = Len(segs) + 2 => Emit)
CallBack == /\ phase = "iter" /\ Len(calls) < Len(segs) + 2
         /\ calls' = Append(calls, 1) /\ ys' = Append(ys, ItBack(P, it)) /\ it' = ItAfterBack(it)
         /\ UNCHANGED <<phase, abs, segs>>
         /\ (Len(calls') = Len(segs) + 2 => Emit)

Next == Grow \/ Start \/ CallFront \/ CallBack

VocabC == {<<>>, <<97>>, <<233>>, DOTDOT, <<110, 97, 239, 118, 101>>, <<255, 163, 191>>}

(* Theorems about the iterator machine *)
Sel(c) == {k \in 1..Len(calls) : calls[k] = c /\ ys[k] # NULL}
FrontYields == LET ks == Sel(0) IN Cardinality(ks)
BackYields  == LET ks == Sel(1) IN Cardinality(ks)
Consistent ==
    phase = "iter" =>
      /\ it.i = 1 + FrontYields /\ it.j = Len(segs) - BackYields      \* cursors count the yields
      /\ FrontYields + BackYields <= Len(segs)                         \* each segment at most once
      /\ \A k \in 1..Len(calls) :                                      \* what is yielded is the right segment
            ys[k] # NULL =>
              IF calls[k] = 0
              THEN ys[k] = segs[Cardinality({m \in 1..k : calls[m] = 0 /\ ys[m] # NULL})]
              ELSE ys[k] = segs[Len(segs) + 1 - Cardinality({m \in 1..k : calls[m] = 1 /\ ys[m] # NULL})]
      /\ \A k \in 1..Len(calls) : ys[k] = NULL => \A m \in k..Len(calls) : ys[m] = NULL  \* fused
      /\ (Len(calls) = Len(segs) + 2) => FrontYields + BackYields = Len(segs)           \* each exactly once
=============================================================================
