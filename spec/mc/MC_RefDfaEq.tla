---------------------------- MODULE MC_RefDfaEq ----------------------------
(* The membership accelerator RefDfa (used by InLang) accepts exactly the  *)
(* language of the RFC regex it was derived from: complete product of the  *)
(* table with the regex's derivative automaton, for all 20 types and words *)
(* of every length.  Run by the C01 and C13 checks, so the table is never  *)
(* trusted on its own.                                                     *)
EXTENDS Lang, TLC, SequencesExt, FiniteSetsExt

VARIABLES ty, q, r
vars == <<ty, q, r>>

RefCuts(t) == UNION {UNION {{e[1], e[2] + 1} : e \in {RefTrans(t)[s][i] : i \in 1..Len(RefTrans(t)[s])}}
                      : s \in 1..Len(RefTrans(t))}
CutSet(t) == ({c \in RefCuts(t) \cup Cuts(LangOf(t)) : c > 0 /\ c <= AlphaMax(t)}
              \cup {0, AlphaMax(t) + 1})
CutSeq(t) == SetToSortSeq(CutSet(t), <)
Reps == TLCEval([t \in AllTypes |-> LET cs == CutSeq(t) IN {cs[i] : i \in 1..(Len(cs) - 1)}])

Init == ty \in AllTypes /\ q = 1 /\ r = LangOf(ty)
Next == /\ ~(q = 0 /\ r = Empty)
        /\ \E c \in Reps[ty] : q' = RefStep(ty, q, c) /\ r' = Deriv(r, c)
        /\ ty' = ty
Agree == (q \in RefFinal(ty)) = Nullable(r)
=============================================================================
