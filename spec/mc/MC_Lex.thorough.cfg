CONSTANTS
  MaxLen = 3
  DeepLen = 4
INIT Init
NEXT Next
INVARIANT Agree
CHECK_DEADLOCK FALSE
