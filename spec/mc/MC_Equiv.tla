------------------------------ MODULE MC_Equiv ------------------------------
(***************************************************************************)
(* C07 / C08: groups of values of each comparable type, composed from      *)
(* vocabularies built to collide under the equivalence (percent-encoded    *)
(* and literal spellings, dot segments, absent vs empty components, ill-   *)
(* formed escapes).  Each value is printed with its Canon (the class key); *)
(* the real ==, cmp, hash of ALL pairs of a group are compared with it.    *)
(***************************************************************************)
EXTENDS Equiv, Lang, Vocab, TLC, Json, SequencesExt, FiniteSetsExt

CONSTANTS PathSegsMax, Big     \* Big: TRUE = the larger reference vocabulary

RECURSIVE SeqsUpTo(_, _)
SeqsUpTo(V, n) == IF n = 0 THEN {<<>>}
                  ELSE LET S == SeqsUpTo(V, n - 1) IN S \cup {Append(s, v) : s \in {x \in S : Len(x) = n - 1}, v \in V}

Valid(ty, S) == {w \in S : InLang(ty, w)}
OptSet(S) == S \cup {NULL}

Paths == {Join(ab, s) : ab \in BOOLEAN, s \in SeqsUpTo(VEqPathSeg, PathSegsMax)}
Auths == {RecomposeAuth([userinfo |-> u, host |-> h, port |-> p]) :
            u \in OptSet(VEqUser), h \in VEqHost, p \in OptSet(VEqPort)}

Small(S, n) == IF Big THEN S ELSE {x \in S : Len(x) <= n}
RefTexts ==
    {Recompose(P) : P \in
       {X \in {MkParts(s, a, p, q, f) :
                 s \in OptSet({<<115>>, <<83>>}),
                 a \in OptSet(IF Big THEN {<<>>, <<104>>, <<37, 54, 56>>, <<117, 64, 104>>, <<104, 58, 56, 48>>, <<104, 58, 48, 56, 48>>, <<104, 58>>, <<91, 58, 58, 97, 93>>, <<91, 58, 58, 65, 93>>} ELSE {<<>>, <<104>>, <<37, 54, 56>>, <<104, 58, 56, 48>>, <<91, 58, 58, 97, 93>>, <<91, 58, 58, 65, 93>>}),
                 p \in VEqRefPath,
                 q \in OptSet(IF Big THEN {<<>>, <<113>>, <<37, 55, 49>>, <<37, 56, 48>>} ELSE {<<>>, <<113>>, <<37, 55, 49>>}),
                 f \in OptSet(IF Big THEN {<<>>, <<102>>, <<37, 54, 54>>} ELSE {<<>>, <<102>>})} :
          Parts(Recompose(X)) = X}}

Group(ty) ==
    CASE ty \in {"USegment", "ISegment"} -> Valid(ty, VEqSeg)
      [] ty \in {"UHost", "IHost"} -> Valid(ty, VEqHost)
      [] ty \in {"UUserInfo", "IUserInfo"} -> Valid(ty, VEqUser \cup VEqSeg)
      [] ty \in {"UQuery", "IQuery"} -> Valid(ty, VEqQuery \cup VEqSeg)
      [] ty \in {"UFragment", "IFragment"} -> Valid(ty, VEqFrag \cup VEqSeg)
      [] ty = "Scheme" -> Valid(ty, VEqScheme \cup {<<115, 43>>, <<>>})
      [] ty = "Port" -> Valid(ty, VEqPort \cup {<<56>>})
      [] ty \in {"UPath", "IPath"} -> Valid(ty, Paths \cup VEqRefPath)
      [] ty \in {"UAuthority", "IAuthority"} -> Valid(ty, Auths)
      [] ty \in {"Uri", "UriRef", "Iri", "IriRef"} -> Valid(ty, RefTexts)

Vals(ty) == LET ws == SetToSeq(Group(ty))
            IN  [i \in 1..Len(ws) |-> [w |-> ws[i], canon |-> Canon(ty, ws[i])]]

VARIABLE ty
Init == ty = "none"
Next == /\ ty = "none" /\ ty' \in AllTypes
        /\ PrintT(ToJson([k |-> "eqgroup", ty |-> ty', vals |-> Vals(ty')]))

\* Equiv is (trivially) an equivalence; what is worth checking is that it is a congruence for
\* dot-segment removal and that it separates what the statement separates.
Theorems ==
    ty \in {"UPath", "IPath"} =>
        \A p \in Group(ty) :
            /\ Canon(ty, p).abs = IsAbs(p)
            /\ \A q \in Group(ty) : (IsAbs(p) = IsAbs(q) /\ NormSegs(p) = NormSegs(q)) => Equiv(ty, p, q)
=============================================================================
