CONSTANTS
  Vocab <- VocabIri
  MaxSegs = 6
  Fam = "iri"
INIT Init
NEXT Next
INVARIANT Theorems
CHECK_DEADLOCK FALSE
