CONSTANTS
  Vocab <- VocabIriBig
  MaxSegs = 5
  Fam = "iri"
INIT Init
NEXT Next
INVARIANT Theorems
CHECK_DEADLOCK FALSE
