----------------------------- MODULE MC_AuthMut -----------------------------
(***************************************************************************)
(* C11: behaviours of ONE authority handle.  The handle keeps a window     *)
(* (start, length) on the whole buffer across calls; the specification     *)
(* carries the same window and TLC checks after every call that the window *)
(* is exactly the authority of the re-parsed text, that the text is valid  *)
(* and that nothing but the targeted sub-component changed.  Every         *)
(* sequence of <= Depth calls from every initial reference is printed with *)
(* the exact handle view and whole text after each call.                   *)
(***************************************************************************)
EXTENDS Editor, Vocab, TLC, Json

CONSTANTS Depth, Fam, Rich

VARIABLES kind, init, text, win, hist
vars == <<kind, init, text, win, hist>>

IsAsciiT(t) == \A i \in 1..Len(t) : t[i] < 128
T2(a, b) == <<a, b>>

LongUser == <<115, 101, 114, 118, 105, 99, 101, 45, 97, 99, 99, 111, 117, 110, 116, 45, 119, 105, 116, 104, 45, 97, 45, 108, 111, 110, 103, 45, 110, 97, 109, 101, 45, 48, 49, 50, 51, 52, 53, 54, 55, 56, 57>>
Users == IF Rich THEN {NULL, <<>>, <<117>>, <<117, 58, 112>>, <<233>>, <<117, 115, 101, 114, 110, 97, 109, 101>>, <<37, 55, 53>>, LongUser, <<65, 37, 52, 50>>, <<37, 52, 49, 66>>}
         ELSE {NULL, <<>>, <<117>>, <<37, 55, 53>>, LongUser, <<65, 37, 52, 50>>, <<37, 52, 49, 66>>}
Hosts == IF Rich THEN {<<>>, <<104>>, <<104, 111, 115, 116, 110, 97, 109, 101>>, <<91, 58, 58, 49, 93>>, <<233>>, <<37, 54, 56>>, <<37, 67, 51, 37, 65, 57>>, <<65, 37, 52, 50>>, <<37, 52, 49, 66>>}
         ELSE {<<>>, <<104>>, <<37, 54, 56>>, <<104, 111, 115, 116, 110, 97, 109, 101>>, <<91, 58, 58, 49, 93>>, <<65, 37, 52, 50>>, <<37, 52, 49, 66>>}
Ports == IF Rich THEN {NULL, <<>>, <<56>>, <<56, 48, 56, 48>>} ELSE {NULL, <<>>, <<56, 48>>}
AuthOps == {<<"set_userinfo", u>> : u \in Users} \cup {<<"set_host", h>> : h \in Hosts}
           \cup {<<"set_port", p>> : p \in Ports}

\* (A%42 and %41B: two spellings of one value that have the SAME length)
\* initial authorities x embeddings
InitAuths == IF Rich
             THEN {<<>>, <<104>>, <<117, 64, 104>>, <<117, 58, 112, 64, 104, 58, 49>>, <<58, 64, 58>>,
                   <<91, 58, 58, 49, 93, 58, 56>>, <<117, 64, 91, 58, 58, 49, 93>>, <<233, 46, 120>>, <<104, 58>>}
             ELSE {<<>>, <<104>>, <<117, 64, 104, 58, 49>>, <<91, 58, 58, 49, 93, 58, 56>>, <<117, 64, 91, 58, 58, 49, 93>>}
Embeds(a) == {T2("ref",  <<47, 47>> \o a),
              T2("full", <<115, 58, 47, 47>> \o a \o <<47, 112>>),
              T2("full", <<115, 58, 47, 47>> \o a \o <<63, 113, 35, 102>>),
              T2("ref",  <<47, 47>> \o a \o <<47, 233>>)}

Init == kind = "none" /\ init = NULL /\ text = <<>> /\ win = <<0, 0>> /\ hist = <<>>

Open == /\ kind = "none"
        /\ \E a \in InitAuths : \E e \in Embeds(a) :
              /\ InLang(RefType(Fam, e[1]), e[2]) /\ Parts(e[2]).authority = a
              /\ kind' = e[1] /\ init' = e[2] /\ text' = e[2] /\ win' = AuthWindow(e[2]) /\ hist' = <<>>

Emit(h) == PrintT(ToJson([k |-> "authbeh",
                          fam |-> IF IsAsciiT(init) /\ \A i \in 1..Len(h) : IsAsciiT(h[i].arg) THEN "both" ELSE "iri",
                          kind |-> kind, init |-> init, steps |-> h]))

Step == /\ kind # "none" /\ Len(hist) < Depth
        /\ \E op \in AuthOps :
             LET r == AuthStep(text, win, op)
                 a2 == WinText(r.text, r.win)
                 A2 == AuthParts(a2)
             IN  /\ text' = r.text /\ win' = r.win
                 /\ hist' = Append(hist, [op |-> op[1], arg |-> op[2], view |-> a2, text |-> r.text,
                                          userinfo |-> A2.userinfo, host |-> A2.host, port |-> A2.port])
                 /\ UNCHANGED <<kind, init>>
                 /\ (Len(hist') = Depth => Emit(hist'))
Next == Open \/ Step

(* Theorems: window coherence, validity, frames *)
Coherent ==
    kind # "none" =>
        /\ InLang(RefType(Fam, kind), text)
        /\ Parts(text).authority = WinText(text, win)
        /\ win = AuthWindow(text)
        /\ Parts(text).scheme = Parts(init).scheme /\ Parts(text).path = Parts(init).path
        /\ Parts(text).query = Parts(init).query /\ Parts(text).fragment = Parts(init).fragment
        /\ hist # <<>> =>
             LET last == hist[Len(hist)]
                 A == AuthParts(WinText(text, win))
             IN  /\ last.op = "set_userinfo" => A.userinfo = last.arg
                 /\ last.op = "set_host" => A.host = last.arg
                 /\ last.op = "set_port" => A.port = last.arg
=============================================================================
