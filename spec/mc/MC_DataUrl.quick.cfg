CONSTANTS
  MaxSuffix = 4
INIT Init
NEXT Next
INVARIANT Theorems
CHECK_DEADLOCK FALSE
