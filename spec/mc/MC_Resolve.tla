----------------------------- MODULE MC_Resolve -----------------------------
(***************************************************************************)
(* C06: all pairs (base, reference) composed from small component          *)
(* vocabularies - every 5.2.2 branch with every dot/empty-segment tail.    *)
(* TLC checks the design theorems of resolution on the specification and   *)
(* prints each pair with the set of admissible results.                    *)
(***************************************************************************)
EXTENDS Resolve, Rfc3986Examples, TLC, Json, Vocab

CONSTANTS BaseSegs, RefSegs, Fam

RECURSIVE SeqsUpTo(_, _)
SeqsUpTo(V, n) == IF n = 0 THEN {<<>>}
                  ELSE LET S == SeqsUpTo(V, n - 1) IN S \cup {Append(s, v) : s \in {x \in S : Len(x) = n - 1}, v \in V}
PathTexts(V, n) == {Join(ab, s) : ab \in BOOLEAN, s \in SeqsUpTo(V, n)}

sS == <<115>>  tT == <<116>>  hH == <<104>>  gG == <<103>>  qQ == <<113>>  yY == <<121>>  fF == <<102>>
\* (<<97, 46, 46>> is "a..": an ordinary segment that merely ends in two dots)
BaseVocab == {<<97>>, DOT, DOTDOT, <<>>, <<97, 46, 46>>}
RefVocab  == {<<97>>, DOT, DOTDOT, <<>>, <<99, 58, 100>>, <<97, 46, 46>>}

Good(ty, P) == LET w == Recompose(P) IN InLang(ty, w) /\ Parts(w) = P

Bases == TLCEval({Recompose(P) : P \in {X \in {MkParts(sS, a, p, q, NULL) :
                        a \in {NULL, hH, <<>>}, p \in PathTexts(BaseVocab, BaseSegs), q \in {NULL, qQ}} :
                        Good(RefType(Fam, "full"), X)}})
Refs == TLCEval({Recompose(P) : P \in {X \in {MkParts(s, a, p, qf[1], qf[2]) :
                        s \in {NULL, tT}, a \in {NULL, gG}, p \in PathTexts(RefVocab, RefSegs),
                        qf \in {<<NULL, NULL>>, <<yY, NULL>>, <<yY, fF>>, <<NULL, fF>>}} :
                        Good(RefType(Fam, "ref"), X)}})

VARIABLES b, r
vars == <<b, r>>

Case(bb, rr) == [k |-> "resolve", fam |-> "both", base |-> bb, ref |-> rr, post |-> ResolveSet(Fam, bb, rr)]

Init == b = NULL /\ r = NULL
PickBase == b = NULL /\ b' \in Bases /\ r' = NULL
PickRef  == b # NULL /\ r = NULL /\ r' \in Refs /\ b' = b /\ PrintT(ToJson(Case(b, r')))
\* the RFC's own examples, as cases for the real code too
Examples == b = NULL /\ b' = Rfc54Base /\ r' = NULL
\* references longer than 512 bytes with the shapes that need a shield or must not get one,
\* and a base whose path contains percent-encoded dots (ordinary segments)
RECURSIVE RepeatSeg(_, _)
RepeatSeg(s, n) == IF n = 0 THEN <<>> ELSE s \o RepeatSeg(s, n - 1)
Tail520 == RepeatSeg(<<47, 97, 98, 99, 100, 101, 102, 103, 104, 105>>, 52)            \* "/abcdefghi" x 52 = 520 bytes
ExtraPairs == {<<<<115, 58, 47, 112>>, <<116, 58, 46>> \o Tail520>>,                                  \* s:/p   t:./abcdefghi/... (dot segment FIRST, no "/." later)
               <<<<115, 58, 47, 112>>, <<116, 58, 46, 46>> \o Tail520>>,                              \* s:/p   t:../abcdefghi/...
               <<<<115, 58, 47, 112>>, <<116, 58, 99, 58, 100>> \o Tail520>>,                       \* s:/p   t:c:d/...
               <<<<115, 58, 47, 112>>, <<47, 120, 47, 46, 46, 47, 47, 101>> \o Tail520>>,           \* s:/p   /x/..//e/...
               <<<<115, 58, 47, 47, 104, 47, 112>>, <<47, 120, 47, 46, 46, 47, 47, 101>> \o Tail520>>,
               <<<<115, 58, 47, 47, 104, 47, 112>>, <<97, 47, 46, 46>> \o Tail520 \o <<47, 46>>>>,  \* a/../...long.../.
               <<<<115, 58, 47, 47, 104, 47, 98, 47, 37, 50, 101, 37, 50, 101, 47, 99>>, <<46, 46, 47, 103>>>>,   \* s://h/b/%2e%2e/c   ../g
               <<<<115, 58, 47, 47, 104, 47, 98, 47, 46, 37, 50, 69, 47, 99>>, <<46, 46, 47, 46, 46, 47, 103>>>>}
Extra == b = NULL /\ \E pr \in ExtraPairs : b' = pr[1] /\ r' = pr[2] /\ PrintT(ToJson(Case(pr[1], pr[2])))
\* scheme names, ports and media-type-like segments that mean something outside RFC 3986: resolution
\* must not treat them differently (bases S://A/x/y and S:x/y, references with and without that scheme)
KnownBases == {s \o <<58, 47, 47>> \o a \o <<47, 120, 47, 121>> : s \in VKnownScheme, a \in VKnownAuth}
              \cup {s \o <<58, 120, 47, 121>> : s \in VKnownScheme}
KnownRefs(s) == VKnownRef \cup {s \o <<58>> \o x : x \in VKnownRef} \cup {<<47, 47>> \o a \o <<47, 97, 47, 46, 46, 47, 98>> : a \in VKnownAuth}
Known == /\ b = NULL
         /\ \E kb \in KnownBases : \E kr \in KnownRefs(Parts(kb).scheme) :
               /\ InLang(RefType(Fam, "ref"), kr)
               /\ b' = kb /\ r' = kr /\ PrintT(ToJson(Case(kb, kr)))
Next == PickBase \/ PickRef \/ Examples \/ Extra \/ Known

HasDot(p) == \E i \in 1..Len(Segs(p)) : IsDotSeg(Segs(p)[i])

Rooted(B, R) ==
    IF R.scheme # NULL \/ R.authority # NULL THEN IsAbs(R.path) \/ R.path = <<>>
    ELSE IF R.path = <<>> THEN TRUE
    ELSE IsAbs(R.path) \/ IsAbs(Merge(B, R.path))

Theorems ==
    (b # NULL /\ r # NULL /\ Len(r) < 100) =>
      LET res == ResolveSet(Fam, b, r)
      IN  /\ res # {}
          /\ \A t \in res :
               /\ InLang(RefType(Fam, "full"), t)                 \* a valid URI ...
               /\ Parts(t).scheme # NULL                           \* ... that has a scheme
               /\ Parts(t).fragment = Parts(r).fragment
               \* 5.2.2: scheme, authority, query of the target
               /\ \E T \in Targets(Parts(b), Parts(r)) :
                     /\ Parts(t).scheme = T.scheme /\ Parts(t).authority = T.authority
                     /\ Parts(t).query = T.query
          \* one answer whenever dot-segment removal is applied to a "/"-rooted path (or to none)
          /\ Rooted(Parts(b), Parts(r))
               => (Cardinality(res) = 1 \/ \A T \in Targets(Parts(b), Parts(r)) : ~Unambiguous(Fam, T))
          \* resolving the result again changes nothing when the base path has no dot segments
          /\ ~HasDot(Parts(b).path) =>
               \A t \in res : (Parts(t).authority # NULL \/ IsAbs(Parts(t).path)) => t \in ResolveSet(Fam, b, t)

\* RFC 3986 5.4: the 42 printed examples
ASSUME \A i \in 1..Len(Rfc54) :
          /\ ResolveSet("uri", Rfc54Base, Rfc54[i][1]) = {Rfc54[i][2]}
          /\ ResolveStrict(Rfc54Base, Rfc54[i][1]) = Rfc54[i][2]
ExampleCases == \A i \in 1..Len(Rfc54) :
                   PrintT(ToJson([k |-> "resolve", fam |-> "both", base |-> Rfc54Base, ref |-> Rfc54[i][1],
                                  post |-> ResolveSet("uri", Rfc54Base, Rfc54[i][1])]))
ASSUME ExampleCases
=============================================================================
