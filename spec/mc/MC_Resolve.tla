----------------------------- MODULE MC_Resolve -----------------------------
(***************************************************************************)
(* C06: all pairs (base, reference) composed from small component          *)
(* vocabularies - every 5.2.2 branch with every dot/empty-segment tail.    *)
(* TLC checks the design theorems of resolution on the specification and   *)
(* prints each pair with the set of admissible results.                    *)
(***************************************************************************)
EXTENDS Resolve, Rfc3986Examples, TLC, Json

CONSTANTS BaseSegs, RefSegs, Fam

RECURSIVE SeqsUpTo(_, _)
SeqsUpTo(V, n) == IF n = 0 THEN {<<>>}
                  ELSE LET S == SeqsUpTo(V, n - 1) IN S \cup {Append(s, v) : s \in {x \in S : Len(x) = n - 1}, v \in V}
PathTexts(V, n) == {Join(ab, s) : ab \in BOOLEAN, s \in SeqsUpTo(V, n)}

sS == <<115>>  tT == <<116>>  hH == <<104>>  gG == <<103>>  qQ == <<113>>  yY == <<121>>  fF == <<102>>
BaseVocab == {<<97>>, DOT, DOTDOT, <<>>}
RefVocab  == {<<97>>, DOT, DOTDOT, <<>>, <<99, 58, 100>>}

Good(ty, P) == LET w == Recompose(P) IN InLang(ty, w) /\ Parts(w) = P

Bases == TLCEval({Recompose(P) : P \in {X \in {MkParts(sS, a, p, q, NULL) :
                        a \in {NULL, hH, <<>>}, p \in PathTexts(BaseVocab, BaseSegs), q \in {NULL, qQ}} :
                        Good(RefType(Fam, "full"), X)}})
Refs == TLCEval({Recompose(P) : P \in {X \in {MkParts(s, a, p, qf[1], qf[2]) :
                        s \in {NULL, tT}, a \in {NULL, gG}, p \in PathTexts(RefVocab, RefSegs),
                        qf \in {<<NULL, NULL>>, <<yY, NULL>>, <<yY, fF>>, <<NULL, fF>>}} :
                        Good(RefType(Fam, "ref"), X)}})

VARIABLES b, r
vars == <<b, r>>

Case(bb, rr) == [k |-> "resolve", fam |-> "both", base |-> bb, ref |-> rr, post |-> ResolveSet(Fam, bb, rr)]

Init == b = NULL /\ r = NULL
PickBase == b = NULL /\ b' \in Bases /\ r' = NULL
PickRef  == b # NULL /\ r = NULL /\ r' \in Refs /\ b' = b /\ PrintT(ToJson(Case(b, r')))
\* the RFC's own examples, as cases for the real code too
Examples == b = NULL /\ b' = Rfc54Base /\ r' = NULL
Next == PickBase \/ PickRef \/ Examples

HasDot(p) == \E i \in 1..Len(Segs(p)) : IsDotSeg(Segs(p)[i])

Rooted(B, R) ==
    IF R.scheme # NULL \/ R.authority # NULL THEN IsAbs(R.path) \/ R.path = <<>>
    ELSE IF R.path = <<>> THEN TRUE
    ELSE IsAbs(R.path) \/ IsAbs(Merge(B, R.path))

Theorems ==
    (b # NULL /\ r # NULL) =>
      LET res == ResolveSet(Fam, b, r)
      IN  /\ res # {}
          /\ \A t \in res :
               /\ InLang(RefType(Fam, "full"), t)                 \* a valid URI ...
               /\ Parts(t).scheme # NULL                           \* ... that has a scheme
               /\ Parts(t).fragment = Parts(r).fragment
               \* 5.2.2: scheme, authority, query of the target
               /\ \E T \in Targets(Parts(b), Parts(r)) :
                     /\ Parts(t).scheme = T.scheme /\ Parts(t).authority = T.authority
                     /\ Parts(t).query = T.query
          \* one answer whenever dot-segment removal is applied to a "/"-rooted path (or to none)
          /\ Rooted(Parts(b), Parts(r))
               => (Cardinality(res) = 1 \/ \A T \in Targets(Parts(b), Parts(r)) : ~Unambiguous(Fam, T))
          \* resolving the result again changes nothing when the base path has no dot segments
          /\ ~HasDot(Parts(b).path) =>
               \A t \in res : (Parts(t).authority # NULL \/ IsAbs(Parts(t).path)) => t \in ResolveSet(Fam, b, t)

\* RFC 3986 5.4: the 42 printed examples
ASSUME \A i \in 1..Len(Rfc54) :
          /\ ResolveSet("uri", Rfc54Base, Rfc54[i][1]) = {Rfc54[i][2]}
          /\ ResolveStrict(Rfc54Base, Rfc54[i][1]) = Rfc54[i][2]
ExampleCases == \A i \in 1..Len(Rfc54) :
                   PrintT(ToJson([k |-> "resolve", fam |-> "both", base |-> Rfc54Base, ref |-> Rfc54[i][1],
                                  post |-> ResolveSet("uri", Rfc54Base, Rfc54[i][1])]))
ASSUME ExampleCases
=============================================================================
