------------------------------ MODULE MC_Parts ------------------------------
(***************************************************************************)
(* C02 / C03 / C16-base / C20: enumerate EXACTLY the valid references of   *)
(* length <= MaxLen over Alphabet by walking the derivative automaton of   *)
(* URI-reference / IRI-reference while keeping the word, check the design  *)
(* theorems of the decomposition on each, and print each with its          *)
(* specification-computed decomposition as a case for the real accessors.  *)
(***************************************************************************)
EXTENDS Admit, Ranges, TLC, Json

CONSTANTS Fam,        \* "uri" | "iri": which grammar is walked
          Alphabet,   \* set of symbols
          MaxLen

VARIABLES w, r
vars == <<w, r>>

RefLang == LangOf(RefType(Fam, "ref"))
IsAscii(t) == \A i \in 1..Len(t) : t[i] < 128

AuthTy == IF Fam = "uri" THEN "UAuthority" ELSE "IAuthority"
Ty(c) == IF Fam = "uri"
         THEN (CASE c = "scheme" -> "Scheme" [] c = "authority" -> "UAuthority" [] c = "path" -> "UPath"
                 [] c = "query" -> "UQuery" [] c = "fragment" -> "UFragment" [] c = "userinfo" -> "UUserInfo"
                 [] c = "host" -> "UHost" [] c = "port" -> "Port")
         ELSE (CASE c = "scheme" -> "Scheme" [] c = "authority" -> "IAuthority" [] c = "path" -> "IPath"
                 [] c = "query" -> "IQuery" [] c = "fragment" -> "IFragment" [] c = "userinfo" -> "IUserInfo"
                 [] c = "host" -> "IHost" [] c = "port" -> "Port")

(* Design theorems about a valid reference t *)
PartsOK(t) ==
    LET P == Parts(t)
    IN  /\ Recompose(P) = t
        /\ P.scheme # NULL => InLang("Scheme", P.scheme)
        /\ P.authority # NULL => InLang(Ty("authority"), P.authority)
        /\ InLang(Ty("path"), P.path)
        /\ P.query # NULL => InLang(Ty("query"), P.query)
        /\ P.fragment # NULL => InLang(Ty("fragment"), P.fragment)
        /\ (P.scheme # NULL) = InLang(RefType(Fam, "full"), t)
        /\ RangesOrdered(t)
        /\ P.authority # NULL =>
             LET A == AuthParts(P.authority)
             IN  /\ RecomposeAuth(A) = P.authority
                 /\ A.userinfo # NULL => InLang(Ty("userinfo"), A.userinfo)
                 /\ InLang(Ty("host"), A.host)
                 /\ A.port # NULL => InLang("Port", A.port)
        \* the base is a valid value of the same kind without query or fragment (C16)
        /\ LET b == BaseOf(t)
           IN  /\ InLang(RefType(Fam, "ref"), b)
               /\ (P.scheme # NULL) => InLang(RefType(Fam, "full"), b)
               /\ Parts(b).query = NULL /\ Parts(b).fragment = NULL
               /\ IsPrefixOf(b, t)

Case(t) ==
    LET P == Parts(t)
    IN  [k |-> "ref", fam |-> IF IsAscii(t) THEN "both" ELSE "iri", w |-> t,
         p |-> P, off |-> PartsOff(t), full |-> (P.scheme # NULL),
         a |-> IF P.authority # NULL THEN AuthParts(P.authority) ELSE [none |-> TRUE],
         aoff |-> IF P.authority # NULL THEN AuthOff(P.authority) ELSE [none |-> TRUE],
         base |-> BaseOf(t)]

Emit(t) == PrintT(ToJson(Case(t)))

Init == /\ w = <<>>
        /\ r = RefLang
        /\ Emit(<<>>)

Next == /\ Len(w) < MaxLen
        /\ \E c \in Alphabet :
              /\ r' = Deriv(r, c)
              /\ r' # Empty
              /\ w' = Append(w, c)
              /\ (Nullable(r') => Emit(w'))

Spec == Init /\ [][Next]_vars

\* every enumerated valid text satisfies the decomposition theorems
Theorems == Nullable(r) => PartsOK(w)
\* the walk is faithful: r is the derivative of the language by w
Faithful == r = DerivWord(RefLang, w)
=============================================================================
