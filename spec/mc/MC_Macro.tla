------------------------------ MODULE MC_Macro ------------------------------
(* C17: string literals for the compile-time macros uri!/uri_ref!/iri!/      *)
(* iri_ref!: every string of length <= MaxLen over an alphabet that contains  *)
(* the characters a Rust literal must escape (quote, backslash, newline,      *)
(* NUL, braces) and multi-byte characters, plus composed long literals; each  *)
(* with the verdict of the RFC production and, when accepted, the RFC          *)
(* decomposition the 'static value must show.                                 *)
EXTENDS Parts, Lang, Vocab, Rare, TLC, Json

CONSTANTS MaxLen
\* a : / ? # % 2 e-acute " \ LF NUL { }
Alpha == {97, 58, 47, 63, 35, 37, 50, 233, 34, 92, 10, 0, 123, 125}
MacroTypes == {"Uri", "UriRef", "Iri", "IriRef"}
VARIABLES ty, w, composed
vars == <<ty, w, composed>>

Case(t, x) == [k |-> "macro", ty |-> t, w |-> x, ok |-> InLang(t, x),
               p |-> IF InLang(t, x) THEN Parts(x) ELSE [none |-> TRUE]]

Init == ty = "none" /\ w = <<>> /\ composed = FALSE
Pick == ty = "none" /\ ty' \in MacroTypes /\ w' = <<>> /\ composed' = FALSE /\ PrintT(ToJson(Case(ty', <<>>)))
Grow == /\ ty # "none" /\ ~composed /\ Len(w) < MaxLen
        /\ \E c \in Alpha : w' = Append(w, c) /\ ty' = ty /\ composed' = FALSE /\ PrintT(ToJson(Case(ty, w')))
Long == /\ ty # "none" /\ ~composed /\ w = <<>>
        /\ \E x \in VMacroLits : w' = x /\ ty' = ty /\ composed' = TRUE /\ PrintT(ToJson(Case(ty, x)))
Rare == /\ ty # "none" /\ ~composed /\ w = <<>>
        /\ \E c \in RareChars : \E x \in RareTemplates(c) : w' = x /\ ty' = ty /\ composed' = TRUE /\ PrintT(ToJson(Case(ty, x)))
Next == Pick \/ Grow \/ Long \/ Rare
=============================================================================
