CONSTANTS
  SegsA = 3
  SegsB = 2
  Fam = "uri"
  Mode = "main"
INIT Init
NEXT Next
INVARIANT Satisfiable
INVARIANT SuffixTheorem
CHECK_DEADLOCK FALSE
