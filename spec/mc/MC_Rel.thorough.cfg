CONSTANTS
  SegsA = 3
  SegsB = 3
  Fam = "uri"
  Mode = "main"
INIT Init
NEXT Next
INVARIANT Satisfiable
INVARIANT SuffixTheorem
CHECK_DEADLOCK FALSE
