CONSTANTS
  Fam = "uri"
  Alphabet = {97, 49, 58, 47, 63, 35, 64, 91, 93}
  MaxLen = 6
INIT Init
NEXT Next
INVARIANT Theorems
CHECK_DEADLOCK FALSE
