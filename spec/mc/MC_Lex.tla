------------------------------- MODULE MC_Lex -------------------------------
(* C01 / C14, bounded part: EVERY string (garbage included) of length <=    *)
(* MaxLen over a boundary alphabet, for every type, with the verdict of the *)
(* RFC production.  Complements the transition cover of MC_LangEq, whose    *)
(* words are access words of the automaton, with arbitrary short strings.   *)
EXTENDS Lang, Rare, TLC, Json

CONSTANTS MaxLen, DeepLen
\* NUL, space, %, 0, :, /, ?, #, @, A, [, ], a, g, DEL, 0x80, e-acute (0xE9), 0xFF, U+E000, U+FFFF, U+10FFFF
Alpha == {0, 32, 37, 48, 58, 47, 63, 35, 64, 65, 91, 93, 97, 103, 127, 128, 233, 255, 57344, 65535, 1114111}
DeepTypes == {"UriRef", "IriRef"}

VARIABLES ty, w
vars == <<ty, w>>
Limit == IF ty \in DeepTypes THEN DeepLen ELSE MaxLen

Init == ty = "none" /\ w = <<>>
Pick == ty = "none" /\ ty' \in AllTypes /\ w' = <<>>
Grow == /\ ty \notin {"none", "done"} /\ Len(w) < Limit
        /\ \E c \in Alpha :
             /\ c <= AlphaMax(ty)
             /\ w' = Append(w, c) /\ ty' = ty
             /\ PrintT(ToJson([k |-> "parse", ty |-> ty, w |-> w', ok |-> InLang(ty, w')]))
\* rare character classes in every position of every component (spec/Rare.tla)
RareStep == /\ ty # "none" /\ w = <<>>
            /\ \E c \in RareChars : \E x \in RareTemplates(c) :
                 /\ c <= AlphaMax(ty)
                 /\ w' = x /\ ty' = "done"
                 /\ PrintT(ToJson([k |-> "parse", ty |-> ty, w |-> x, ok |-> InLang(ty, x)]))
Next == Pick \/ Grow \/ RareStep
\* the table-driven acceptor agrees with the definition on every enumerated string
Agree == ty \notin {"none", "done"} => InLang(ty, w) = InLangDef(ty, w)
=============================================================================
