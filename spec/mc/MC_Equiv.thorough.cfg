CONSTANTS
  PathSegsMax = 3
  Big = TRUE
INIT Init
NEXT Next
INVARIANT Theorems
CHECK_DEADLOCK FALSE
