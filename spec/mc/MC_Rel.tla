------------------------------- MODULE MC_Rel -------------------------------
(***************************************************************************)
(* C15 / C16: input pairs for relativisation and suffix extraction.  The   *)
(* results of the real code are recorded and judged by TLC afterwards      *)
(* (spec/trace/Trace_Events.tla) with the specification's own resolver and *)
(* equivalence, so that a defect in the library's resolver or == can       *)
(* neither mask nor fake a failure.  TLC also checks here that an          *)
(* acceptable answer always EXISTS (the property is satisfiable).          *)
(***************************************************************************)
EXTENDS Suffix, Vocab, TLC, Json

CONSTANTS SegsA, SegsB, Fam, Mode      \* Mode: "main" | "pct" (small vocabularies of percent-encoded spellings)

RECURSIVE SeqsUpTo(_, _)
SeqsUpTo(V, n) == IF n = 0 THEN {<<>>}
                  ELSE LET S == SeqsUpTo(V, n - 1) IN S \cup {Append(s, v) : s \in {x \in S : Len(x) = n - 1}, v \in V}

sS == <<115>>  tT == <<116>>  hH == <<104>>  gG == <<103>>  qQ == <<113>>  fF == <<102>>
\* pct mode: escaped vs literal, same-length respellings, DOUBLE encoding (%2541 vs %41) and a letter
\* whose case differs AFTER an escape (x%20Ab vs x%20ab)
VocA == IF Mode = "pct" THEN {<<97>>, <<37, 50, 102>>, <<37, 52, 49, 66>>, DOTDOT, <<233, 58, 98>>, <<37, 50, 53, 52, 49>>, <<120, 37, 50, 48, 65, 98>>} ELSE {<<97>>, <<98>>, <<>>, DOT, DOTDOT, <<99, 58, 100>>}
VocB == IF Mode = "pct" THEN {<<97>>, <<37, 50, 70>>, <<65, 37, 52, 50>>, <<37, 52, 49>>, <<120, 37, 50, 48, 97, 98>>} ELSE {<<97>>, <<98>>, <<>>, DOTDOT}

Good(P) == LET w == Recompose(P) IN InLang(FullTy(Fam), w) /\ Parts(w) = P

UrisA == TLCEval({Recompose(P) : P \in {X \in {MkParts(s, a, Join(ab, p), qf[1], qf[2]) :
                s \in {sS, tT}, a \in (IF Mode = "pct" THEN {hH, <<37, 54, 56>>} ELSE {NULL, hH}), ab \in BOOLEAN, p \in SeqsUpTo(VocA, SegsA),
                qf \in {<<NULL, NULL>>, <<qQ, fF>>, <<NULL, fF>>, <<qQ, NULL>>}} : Good(X)}})
UrisB == TLCEval({Recompose(P) : P \in {X \in {MkParts(sS, a, Join(ab, p), q, NULL) :
                a \in (IF Mode = "pct" THEN {hH, <<37, 54, 56>>} ELSE {NULL, hH, gG}), ab \in BOOLEAN, p \in SeqsUpTo(VocB, SegsB), q \in {NULL, qQ}} : Good(X)}})

\* paths for Path::suffix
PathsV == TLCEval({Join(ab, p) : ab \in BOOLEAN, p \in SeqsUpTo(IF Mode = "pct" THEN {<<97>>, <<37, 50, 102>>, <<37, 52, 49, 66>>, DOTDOT} ELSE {<<97>>, <<98>>, <<>>, DOT, DOTDOT, <<37, 54, 49>>}, SegsA)})
PathsP == TLCEval({Join(ab, p) : ab \in BOOLEAN, p \in SeqsUpTo(IF Mode = "pct" THEN {<<97>>, <<37, 50, 70>>, <<65, 37, 52, 50>>} ELSE {<<97>>, <<>>, DOTDOT, <<37, 54, 49>>}, SegsB)})

VARIABLES a, b, mode
vars == <<a, b, mode>>

Init == a = NULL /\ b = NULL /\ mode = "start"
PickB == mode = "start" /\ b' \in UrisB /\ a' = NULL /\ mode' = "rel"
PickA == /\ mode = "rel" /\ a = NULL /\ a' \in UrisA /\ UNCHANGED <<b, mode>>
         \* only where the property is satisfiable at all: a itself must be an acceptable answer
         \* (it is not for the few a whose own path changes class under dot-segment removal, e.g. "s:./")
         /\ (RelOk(Fam, a', b, a') => PrintT(ToJson([k |-> "rel", fam |-> "both", a |-> a', b |-> b])))
         /\ PrintT(ToJson([k |-> "suffix", fam |-> "both", what |-> "ref", v |-> a', p |-> b]))
PickP == mode = "start" /\ b' \in PathsP /\ a' = NULL /\ mode' = "path"
PickV == /\ mode = "path" /\ a = NULL /\ a' \in PathsV /\ UNCHANGED <<b, mode>>
         /\ PrintT(ToJson([k |-> "suffix", fam |-> "both", what |-> "path", v |-> a', p |-> b]))
\* deep directories: more than 16 levels to climb (and to descend)
RECURSIVE Dirs(_)
Dirs(n) == IF n = 0 THEN <<>> ELSE Append(Dirs(n - 1), <<100, 48 + (n % 10)>>)      \* d1 d2 ...
Deep(n) == <<115, 58, 47, 47, 104>> \o Join(TRUE, Append(Dirs(n), <<102>>))          \* s://h/d1/.../dn/f
DeepPairs == {<<Deep(0), Deep(17)>>, <<Deep(17), Deep(0)>>, <<Deep(16), Deep(33)>>, <<Deep(33), Deep(2)>>,
              <<<<115, 58, 47, 47, 104, 47, 111>>, Deep(18)>>}
PickDeep == /\ mode = "start" /\ Mode = "main"
            /\ \E pr \in DeepPairs : a' = pr[1] /\ b' = pr[2] /\ mode' = "deep"
                  /\ PrintT(ToJson([k |-> "rel", fam |-> "both", a |-> pr[1], b |-> pr[2]]))
                  /\ PrintT(ToJson([k |-> "suffix", fam |-> "both", what |-> "ref", v |-> pr[1], p |-> pr[2]]))
\* scheme names and port numbers that mean something outside RFC 3986 (default ports): suffix and
\* relativisation must compare authorities as the library's == does, whatever the scheme
KnownUri(s, au, p) == s \o <<58, 47, 47>> \o au \o p
KnownPairs == {<<KnownUri(s, a1, <<47, 97, 47, 98, 63, 113, 35, 102>>), KnownUri(s, a2, <<47, 97>>)>> :
                 s \in VKnownScheme, a1 \in VKnownAuth, a2 \in VKnownAuth}
              \* b is a bare origin (authority, empty path) whose text is a PREFIX of a's text: "s://h" / "s://hh/x", "s://h.evil/x"
              \cup {<<KnownUri(<<115>>, a1, p), KnownUri(<<115>>, a2, <<>>)>> :
                      a1 \in {<<104>>, <<104, 104>>, <<104, 46, 101>>, <<104, 58, 56, 48>>, <<>>, <<97>>},
                      a2 \in {<<104>>, <<>>, <<104, 58>>},
                      p \in {<<>>, <<47, 120>>, <<47, 47, 120>>, <<47, 120, 63, 113, 35, 102>>}}
PickKnown == /\ mode = "start" /\ Mode = "main"
             /\ \E pr \in KnownPairs : a' = pr[1] /\ b' = pr[2] /\ mode' = "deep"
                   /\ PrintT(ToJson([k |-> "rel", fam |-> "both", a |-> pr[1], b |-> pr[2]]))
                   /\ PrintT(ToJson([k |-> "suffix", fam |-> "both", what |-> "ref", v |-> pr[1], p |-> pr[2]]))
Next == PickB \/ PickA \/ PickP \/ PickV \/ PickDeep \/ PickKnown

\* C15 is satisfiable: a itself always is an acceptable answer (a full URI is a reference that
\* resolves to itself up to dot-segment removal)
Satisfiable == (mode = "rel" /\ a # NULL /\ NormSegs(Parts(a).path) = Segs(Parts(a).path)
                   /\ (Segs(Parts(a).path) = <<>> \/ Segs(Parts(a).path)[1] # <<>>)) => RelOk(Fam, a, b, a)
\* C16 design theorem: prefix segments ++ suffix segments are the value's normalized segments
SuffixTheorem ==
    (mode = "path" /\ a # NULL /\ PathHasSuffix(a, b)) =>
        DecSegs(NormSegs(b) \o PathSuffixSegs(a, b)) = DecSegs(NormSegs(a))
=============================================================================
