CONSTANTS
  PathSegsMax = 2
  Big = FALSE
INIT Init
NEXT Next
INVARIANT Theorems
CHECK_DEADLOCK FALSE
