CONSTANTS
  MaxLen = 2
  DeepLen = 3
INIT Init
NEXT Next
INVARIANT Agree
CHECK_DEADLOCK FALSE
