CONSTANTS
  Vocab <- VocabC
  MaxSegs = 4
INIT Init
NEXT Next
INVARIANT Consistent
CHECK_DEADLOCK FALSE
