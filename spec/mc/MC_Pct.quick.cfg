CONSTANTS
  MaxTok = 2
  DeepTypes = {"USegment", "IQuery"}
  DeepTok = 3
INIT Init
NEXT Next
INVARIANT Theorems
CHECK_DEADLOCK FALSE
