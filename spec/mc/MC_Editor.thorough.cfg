CONSTANTS
  MaxLen = 10
  Fam = "iri"
  Rich = TRUE
INIT Init
NEXT Next
INVARIANT Closed
CHECK_DEADLOCK FALSE
