CONSTANTS
  Vocab <- VocabPct
  MaxSegs = 4
  Fam = "iri"
INIT Init
NEXT Next
INVARIANT Theorems
CHECK_DEADLOCK FALSE
