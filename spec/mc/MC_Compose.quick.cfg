CONSTANTS
  MaxSegs = 1
  Fam = "iri"
INIT Init
NEXT Next
INVARIANT Theorems
CHECK_DEADLOCK FALSE
