CONSTANTS
  Fam = "uri"
  Alphabet = {97, 49, 58, 64, 91, 93, 46, 37, 118}
  MaxLen = 6
INIT Init
NEXT Next
INVARIANT Theorems
CHECK_DEADLOCK FALSE
