CONSTANTS
  Fam = "iri"
  Alphabet = {97, 49, 58, 64, 91, 93, 233, 128512, 46, 37}
  MaxLen = 7
INIT Init
NEXT Next
INVARIANT Theorems
CHECK_DEADLOCK FALSE
