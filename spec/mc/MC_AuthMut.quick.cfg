CONSTANTS
  Depth = 2
  Fam = "iri"
  Rich = FALSE
INIT Init
NEXT Next
INVARIANT Coherent
CHECK_DEADLOCK FALSE
