CONSTANTS
  MaxTok = 3
  DeepTypes = {"USegment", "IQuery"}
  DeepTok = 4
INIT Init
NEXT Next
INVARIANT Theorems
CHECK_DEADLOCK FALSE
