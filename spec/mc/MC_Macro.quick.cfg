CONSTANTS
  MaxLen = 2
INIT Init
NEXT Next
CHECK_DEADLOCK FALSE
