INIT Init
NEXT Next
INVARIANT Agree
CHECK_DEADLOCK FALSE
