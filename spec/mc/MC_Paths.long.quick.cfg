CONSTANTS
  Vocab <- VocabPct
  MaxSegs = 0
  Fam = "iri"
INIT Init
NEXT Next
CHECK_DEADLOCK FALSE
