CONSTANTS
  MaxLen = 3
INIT Init
NEXT Next
CHECK_DEADLOCK FALSE
