------------------------------ MODULE MC_Unit ------------------------------
(* Unit tests of the specification operators against examples printed in   *)
(* the RFCs and in the property statements (evaluated by TLC as ASSUMEs).  *)
EXTENDS Resolve, TLC

\* "abc" helpers: texts from small alphabets are written with S("...") through a table
Ch(c) == CASE c = "a" -> 97 [] c = "b" -> 98 [] c = "c" -> 99 [] c = "d" -> 100 [] c = "g" -> 103
           [] c = "h" -> 104 [] c = "p" -> 112 [] c = "q" -> 113 [] c = "s" -> 115 [] c = "x" -> 120
           [] c = "y" -> 121 [] c = "f" -> 102 [] c = "u" -> 117
           [] c = "/" -> 47 [] c = "." -> 46 [] c = ":" -> 58 [] c = "?" -> 63 [] c = "#" -> 35
           [] c = "@" -> 64 [] c = "[" -> 91 [] c = "]" -> 93 [] c = "1" -> 49 [] c = "8" -> 56
           [] c = ";" -> 59 [] c = "%" -> 37 [] c = "2" -> 50 [] c = "e" -> 101 [] c = "E" -> 69
RECURSIVE T(_)
T(seq) == IF seq = <<>> THEN <<>> ELSE <<Ch(Head(seq))>> \o T(Tail(seq))

ASSUME Parts(T(<<"s",":","/","/","h","/","a","?","q","#","f">>)) =
         MkParts(T(<<"s">>), T(<<"h">>), T(<<"/","a">>), T(<<"q">>), T(<<"f">>))
ASSUME Parts(<<>>) = MkParts(NULL, NULL, <<>>, NULL, NULL)
ASSUME Parts(T(<<"/","/">>)) = MkParts(NULL, <<>>, <<>>, NULL, NULL)
ASSUME Parts(T(<<"a","/","b",":","c">>)) = MkParts(NULL, NULL, T(<<"a","/","b",":","c">>), NULL, NULL)
ASSUME Parts(T(<<"s",":","?","#">>)) = MkParts(T(<<"s">>), NULL, <<>>, <<>>, <<>>)
ASSUME Parts(T(<<"#","?",":","/">>)) = MkParts(NULL, NULL, <<>>, NULL, T(<<"?",":","/">>))
ASSUME \A w \in {T(<<"s",":","/","/","h","/","a","?","q","#","f">>), <<>>, T(<<"/","/">>), T(<<"s",":">>)} :
          Recompose(Parts(w)) = w
ASSUME AuthParts(T(<<"u",":","p","@","h",":","8">>)) =
         [userinfo |-> T(<<"u",":","p">>), host |-> T(<<"h">>), port |-> T(<<"8">>)]
ASSUME AuthParts(T(<<"[",":",":","1","]",":","8">>)) =
         [userinfo |-> NULL, host |-> T(<<"[",":",":","1","]">>), port |-> T(<<"8">>)]
ASSUME AuthParts(T(<<"@",":">>)) = [userinfo |-> <<>>, host |-> <<>>, port |-> <<>>]
ASSUME AuthParts(<<>>) = [userinfo |-> NULL, host |-> <<>>, port |-> NULL]

ASSUME Segs(<<>>) = <<>> /\ Segs(T(<<"/">>)) = <<>> /\ Segs(T(<<"/","/">>)) = << <<>>, <<>> >>
ASSUME Segs(T(<<"a","/">>)) = <<T(<<"a">>), <<>>>>
ASSUME Segs(T(<<"/","a","/","b">>)) = <<T(<<"a">>), T(<<"b">>)>>

\* RFC 3986 5.2.4 examples
ASSUME Rfc524(T(<<"/","a","/","b","/","c","/",".","/",".",".","/",".",".","/","g">>)) = T(<<"/","a","/","g">>)
ASSUME Rfc524(T(<<"a","/",".",".","/",".",".","/","g">>)) = T(<<"/","g">>)  \* "mid/content=5/../6" shape
\* the repository's documented vectors (tests: normalized)
ASSUME Normalized(T(<<"a","/",".",".">>)) = <<>>
ASSUME Normalized(T(<<"a","/","b","/",".",".">>)) = T(<<"a","/">>)
ASSUME Normalized(T(<<"a","/","b","/","c","/",".">>)) = T(<<"a","/","b","/","c","/">>)
ASSUME Normalized(T(<<"a","/",".",".","/",".",".">>)) = T(<<".",".","/">>)
ASSUME Normalized(T(<<"/","a","/",".",".","/",".",".">>)) = T(<<"/">>)
ASSUME NormSegs(T(<<"a","/",".",".","/",".",".">>)) = <<DOTDOT>>

ASSUME Directory(T(<<"/","a","/","b">>)) = T(<<"/","a","/">>) /\ Directory(T(<<"a">>)) = <<>>

ASSUME InLang("Uri", T(<<"s",":","/","/","h","/","a","?","q","#","f">>))
ASSUME ~InLang("Uri", T(<<"/","a">>)) /\ InLang("UriRef", T(<<"/","a">>))
ASSUME ~InLang("UriRef", T(<<"1",":","a">>)) /\ InLang("UriRef", T(<<".","/","1",":","a">>))
ASSUME InLang("UHost", T(<<"[",":",":","1","]">>)) /\ ~InLang("UHost", T(<<"[",":","1","]">>))
ASSUME InLang("USegment", T(<<"%","2","e">>)) /\ ~InLang("USegment", T(<<"%","2">>))

\* the three shapes of the big_resolve events (Trace_Events.BigResolveConforms), with a short <big>
ASSUME ResolveStrict(T(<<"s",":","/","/","h","/","p","/","q">>), T(<<"x",":","/","x","/",".",".","/","a","a","a","/",".","/","y">>))
         = T(<<"x",":","/","a","a","a","/","y">>)
ASSUME ResolveStrict(T(<<"s",":","/","/","h","/","p","/","q">>), T(<<".",".","/","a","a","a","/",".","/","y">>))
         = T(<<"s",":","/","/","h","/","a","a","a","/","y">>)
ASSUME ResolveStrict(T(<<"s",":","/","/","h","/","a","a","a","/","q">>), T(<<".","/","y">>))
         = T(<<"s",":","/","/","h","/","a","a","a","/","y">>)

\* admissible renderings
ASSUME Admissible(CtxOf("uri", "ref", <<>>), <<>>, FALSE, <<T(<<"b",":","c">>)>>)
         = {T(<<".","/","b",":","c">>)}
ASSUME Admissible(CtxOf("uri", "ref", T(<<"s",":">>)), <<>>, FALSE, <<T(<<"b",":","c">>)>>)
         = {T(<<"b",":","c">>)}
ASSUME Admissible(StandAlone("uri"), T(<<"a">>), FALSE, <<T(<<"a">>), T(<<"b">>)>>)
         = {T(<<"a","/","b">>)}
ASSUME Admissible(CtxOf("uri", "full", T(<<"s",":">>)), T(<<"/">>), TRUE, << <<>>, T(<<"a">>)>>)
         = {T(<<"/",".","/","/","a">>)}
ASSUME Admissible(StandAlone("uri"), <<>>, FALSE, << <<>> >>) = {T(<<".","/">>)}

VARIABLE x
Init == x = 0
Next == UNCHANGED x
=============================================================================
