CONSTANTS
  BaseSegs = 2
  RefSegs = 2
  Fam = "uri"
INIT Init
NEXT Next
INVARIANT Theorems
CHECK_DEADLOCK FALSE
