----------------------------- MODULE MC_DataUrl -----------------------------
(* C18: composed data-URL candidates (valid, near misses, prefix mutations)  *)
(* and all short suffixes after three prefixes.  TLC checks that the two     *)
(* formulations (re-scan / stored offsets) agree on every accepted string    *)
(* and that the parts reassemble the text; each string is printed with the   *)
(* verdict and the expected views.                                           *)
EXTENDS DataUrl, Pct, Vocab, TLC, Json

CONSTANTS MaxSuffix

Composed == {p \o m \o x \o c \o d : p \in VDataPrefix, m \in VDataMedia, x \in VDataMid, c \in VDataComma, d \in VDataData}
ComposedLong == {DATA \o m \o x \o <<44>> \o d : m \in VDataMediaLong, x \in {<<>>, <<59, 98, 97, 115, 101, 54, 52>>},
                                                    d \in {<<81, 85, 74, 68>>, <<97, 44, 98>>, <<>>}}
SufAlpha == {97, 59, 44, 98, 47, 35, 65, 61, 54, 37, 58}

VARIABLES w, n, mode
vars == <<w, n, mode>>

Expect(t) ==
    IF IsDataUrl(t)
    THEN LET d == OffData(t)
             b == OffB64(t)
         IN  [k |-> "data", w |-> t, ok |-> TRUE, media |-> OffMedia(t), b64 |-> b, data |-> d,
              dec |-> IF ~b THEN "bytes" ELSE IF B64Foreign(d) THEN "error"
                      ELSE IF B64Canonical(d) THEN "bytes" ELSE "unspecified",
              bytes |-> IF ~b THEN Utf8EncAll(d) ELSE IF ~B64Foreign(d) /\ B64Canonical(d) THEN B64Decode(d) ELSE <<>>]
    ELSE [k |-> "data", w |-> t, ok |-> FALSE, media |-> NULL, b64 |-> FALSE, data |-> <<>>, dec |-> "none", bytes |-> <<>>]

Init == w = <<>> /\ n = 0 /\ mode = "start"
PickComposed == mode = "start" /\ w' \in Composed \cup ComposedLong /\ n' = 0 /\ mode' = "composed" /\ PrintT(ToJson(Expect(w')))
PickPrefix == mode = "start" /\ w' \in {DATA, <<100, 97, 116, 58>>, <<68, 65, 84, 65, 58>>} /\ n' = 0 /\ mode' = "grow"
              /\ PrintT(ToJson(Expect(w')))
Grow == /\ mode = "grow" /\ n < MaxSuffix
        /\ \E c \in SufAlpha : w' = Append(w, c) /\ n' = n + 1 /\ mode' = mode /\ PrintT(ToJson(Expect(w')))
Next == PickComposed \/ PickPrefix \/ Grow

(* the re-scanning and the stored-offset formulations agree, and the parts reassemble the text *)
Theorems ==
    IsDataUrl(w) =>
        /\ ScanMedia(w) = OffMedia(w) /\ ScanB64(w) = OffB64(w) /\ ScanData(w) = OffData(w)
        /\ Reassemble(OffMedia(w), OffB64(w), OffData(w)) = w
=============================================================================
