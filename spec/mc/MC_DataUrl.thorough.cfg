CONSTANTS
  MaxSuffix = 6
INIT Init
NEXT Next
INVARIANT Theorems
CHECK_DEADLOCK FALSE
