----------------------------- MODULE MC_PathMut -----------------------------
(***************************************************************************)
(* C10: behaviours of ONE path handle.  A handle carries hidden state (its *)
(* byte window and the follows-authority flag), so whole call sequences    *)
(* are explored: every context x initial path x every sequence of <= Depth *)
(* calls.  The model's state is the abstract value (absoluteness, segment  *)
(* list), which does not depend on which admissible rendering the          *)
(* implementation chose; each step carries the set of admissible views.    *)
(***************************************************************************)
EXTENDS Editor, TLC, Json

CONSTANTS Depth, Fam, Rich

VARIABLES ctxi, init, ab, X, mayDot, hist
vars == <<ctxi, init, ab, X, mayDot, hist>>
View == <<ctxi, init, ab, X, mayDot, Len(hist)>>

sS == <<115>>  hH == <<104>>  qQ == <<113>>  fF == <<102>>
Ctxs == << StandAlone(Fam),
           [fam |-> Fam, kind |-> "ref",  scheme |-> NULL, authority |-> NULL, query |-> NULL, fragment |-> NULL],
           [fam |-> Fam, kind |-> "full", scheme |-> sS,   authority |-> NULL, query |-> NULL, fragment |-> NULL],
           [fam |-> Fam, kind |-> "ref",  scheme |-> NULL, authority |-> hH,   query |-> NULL, fragment |-> NULL],
           [fam |-> Fam, kind |-> "full", scheme |-> sS,   authority |-> hH,   query |-> qQ,   fragment |-> fF],
           [fam |-> Fam, kind |-> "ref",  scheme |-> NULL, authority |-> NULL, query |-> qQ,   fragment |-> fF] >>

InitPaths == IF Rich
             THEN {<<>>, <<47>>, <<97>>, <<47, 97>>, <<97, 47>>, <<46, 47, 98, 58, 99>>, <<47, 46, 47, 47, 97>>,
                   <<46, 46>>, <<233, 47, 252>>, <<47, 97, 47, 98>>}
             ELSE {<<>>, <<47>>, <<97>>, <<47, 97, 47>>, <<46, 47, 98, 58, 99>>, <<47, 46, 47, 47, 97>>}
SegsV == IF Rich THEN {<<>>, <<97>>, DOT, DOTDOT, <<98, 58, 99>>, <<49, 58, 99>>, <<233>>, <<98, 46, 46>>, <<46, 46, 46>>, <<233, 58, 98>>, <<37, 50, 69, 37, 50, 69>>, <<46, 37, 50, 101>>}
         ELSE {<<>>, <<97>>, DOTDOT, <<49, 58, 99>>, <<98, 46, 46>>, <<233, 58, 98>>, <<37, 50, 69, 37, 50, 69>>}
PathOps == {<<"push", s>> : s \in SegsV} \cup {<<"sym_push", s>> : s \in SegsV}
           \cup {<<"pop">>, <<"clear">>, <<"normalize">>}
           \cup {<<"sym_append", <<DOTDOT, <<97>>>>>>, <<"sym_append", <<<<97>>, DOT>>>>}

Ctx == Ctxs[ctxi]
IsAsciiT(t) == \A i \in 1..Len(t) : t[i] < 128

Init == ctxi = 0 /\ init = NULL /\ ab = FALSE /\ X = <<>> /\ mayDot = FALSE /\ hist = <<>>

Open == /\ ctxi = 0
        /\ \E i \in 1..Len(Ctxs), p \in InitPaths :
              /\ ValidIn(Ctxs[i], p)
              /\ ctxi' = i /\ init' = p
              /\ ab' = AbsOf(Ctxs[i], p) /\ X' = Segs(p) /\ mayDot' = HasLeadDot(p)
              /\ hist' = <<>>

Emit(h) ==
    PrintT(ToJson([k |-> "pathbeh", fam |-> IF IsAsciiT(init) /\ \A i \in 1..Len(h) : h[i].ascii THEN "both" ELSE "iri",
                   kind |-> Ctx.kind,
                   pre |-> IF Ctx.kind = "path" THEN <<>> ELSE Take(Embed(Ctx, <<>>), (IF Ctx.scheme # NULL THEN Len(Ctx.scheme) + 1 ELSE 0)
                                                                               + (IF Ctx.authority # NULL THEN Len(Ctx.authority) + 2 ELSE 0)),
                   suf |-> IF Ctx.kind = "path" THEN <<>>
                           ELSE (IF Ctx.query # NULL THEN <<cQM>> \o Ctx.query ELSE <<>>)
                                \o (IF Ctx.fragment # NULL THEN <<cHASH>> \o Ctx.fragment ELSE <<>>),
                   init |-> init, steps |-> h]))

OpAscii(op) == IF Len(op) = 1 THEN TRUE
               ELSE IF op[1] = "sym_append" THEN \A i \in 1..Len(op[2]) : IsAsciiT(op[2][i])
               ELSE IsAsciiT(op[2])

Step == /\ ctxi # 0 /\ Len(hist) < Depth
        /\ \E op \in PathOps : \E X2 \in AltsOf(ab, X, op, mayDot) :
             LET adm  == AdmissibleStep(Ctx, mayDot, ab, X2)
                 rec  == [op |-> op[1], arg |-> IF Len(op) > 1 /\ op[1] # "sym_append" THEN op[2] ELSE <<>>,
                          args |-> IF op[1] = "sym_append" THEN op[2] ELSE <<>>,
                          view |-> adm, ascii |-> OpAscii(op)]
             IN  /\ Assert(adm # {}, <<"no admissible view", Ctx, init, hist, op>>)
                 /\ X' = X2 /\ hist' = Append(hist, rec)
                 /\ mayDot' = \E c \in adm : HasLeadDot(c)
                 /\ UNCHANGED <<ctxi, init, ab>>
                 /\ (Len(hist') = Depth => Emit(hist'))

Next == Open \/ Step

(* Theorems on the abstract machine *)
Theorems ==
    ctxi # 0 =>
       \* absoluteness never changes (a path that follows an authority is absolute)
       /\ ab = AbsOf(Ctx, init)
       \* every admissible view is a valid path in its context, leaving the other components alone
       /\ \A c \in AdmissibleStep(Ctx, mayDot, ab, X) :
             /\ ValidIn(Ctx, c)
             /\ (Ctx.kind # "path" =>
                   LET Q == Parts(Embed(Ctx, c))
                   IN  Q.scheme = Ctx.scheme /\ Q.authority = Ctx.authority /\ Q.query = Ctx.query /\ Q.fragment = Ctx.fragment)
=============================================================================
