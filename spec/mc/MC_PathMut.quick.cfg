CONSTANTS
  Depth = 2
  Fam = "iri"
  Rich = FALSE
INIT Init
NEXT Next
INVARIANT Theorems
CHECK_DEADLOCK FALSE
