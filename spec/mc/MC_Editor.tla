----------------------------- MODULE MC_Editor -----------------------------
(***************************************************************************)
(* C04 / C05: the editor as a state machine.  State = (kind, text) of an   *)
(* owned buffer; one action per public mutator with every argument of the  *)
(* vocabularies.  An owned buffer has no hidden state besides its text, so *)
(* every history is a path in this graph; TLC explores every text          *)
(* reachable within MaxLen, checks that each is well-formed (the SPECIFIED  *)
(* editor is closed, C04) and that each setter result re-parses to the     *)
(* intended components (the three documented rules are sufficient, C05),   *)
(* and prints every edge as a case for the real mutators.                  *)
(***************************************************************************)
EXTENDS Editor, TLC, Json

CONSTANTS MaxLen, Fam, Rich

VARIABLES kind, text
vars == <<kind, text>>

Ty == RefType(Fam, kind)
IsAsciiT(t) == \A i \in 1..Len(t) : t[i] < 128

tx(a, b) == <<a, b>>
\* vocabularies (code points): s, a+b / h, u@h:1, e-acute / paths / queries / fragments / segments
Schemes == {<<115>>, <<97, 43, 98>>}
Auths   == IF Rich THEN {<<>>, <<104>>, <<117, 64, 104, 58, 49>>, <<233>>, <<37, 54, 56>>, <<37, 55, 53, 64, 104, 58, 49>>} ELSE {<<>>, <<104>>, <<37, 54, 56>>}
PathsV  == IF Rich
           THEN {<<>>, <<47>>, <<97>>, <<47, 97>>, <<49, 58, 98>>, <<97, 58, 98>>, <<47, 47, 97>>,
                 <<46, 47, 97, 58, 98>>, <<47, 46, 47, 47, 97>>, <<233>>, <<97, 47, 46, 46>>, <<47, 47>>, <<37, 51, 65, 98>>, <<97, 37, 51, 97>>}
           ELSE {<<>>, <<47>>, <<97>>, <<49, 58, 98>>, <<97, 58, 98>>, <<47, 47, 97>>, <<47, 46, 47, 47, 97>>, <<233, 58, 98, 47, 99>>, <<37, 51, 65, 98>>}
Queries == IF Rich THEN {<<>>, <<113>>, <<97, 58, 98, 47, 99, 63, 100>>} ELSE {<<>>, <<113>>}
Frags   == IF Rich THEN {<<>>, <<102>>, <<97, 47, 98, 63, 99>>} ELSE {<<102>>}
SegsV   == IF Rich THEN {<<>>, <<97>>, DOT, DOTDOT, <<98, 58, 99>>, <<49, 58, 99>>, <<233>>, <<98, 46, 46>>, <<233, 58, 98>>, <<37, 50, 69, 37, 50, 69>>, <<37, 51, 65>>, <<97, 37, 51, 97>>}
           ELSE {<<>>, <<97>>, DOTDOT, <<49, 58, 99>>, <<98, 46, 46>>, <<233, 58, 98>>, <<37, 51, 65>>}
Bases   == {<<115, 58, 47, 47, 104, 47, 97, 47, 98>>, <<115, 58, 97>>, <<115, 58, 47, 47, 104>>}
Users   == {<<>>, <<117>>, <<37, 55, 53>>}
Hosts   == {<<>>, <<104>>, <<37, 54, 56>>, <<91, 58, 58, 49, 93>>, <<72>>}
Ports   == {<<>>, <<56>>}

Op(name, arg) == [op |-> name, arg |-> arg]

Ops(k, w) ==
    LET P == Parts(w)
    IN  {Op("set_scheme", s) : s \in Schemes \cup (IF k = "ref" THEN {NULL} ELSE {})}
        \cup {Op("set_authority", a) : a \in Auths \cup {NULL}}
        \cup {Op("set_path", p) : p \in PathsV}
        \cup {Op("set_query", q) : q \in Queries \cup {NULL}}
        \cup {Op("set_fragment", f) : f \in Frags \cup {NULL}}
        \cup {Op("push", s) : s \in SegsV} \cup {Op("sym_push", s) : s \in SegsV}
        \cup {Op("pop", <<>>), Op("clear", <<>>), Op("normalize", <<>>)}
        \cup (IF k = "ref" THEN {Op("resolve", b) : b \in Bases} ELSE {})
        \cup (IF P.authority # NULL
              THEN {Op("set_userinfo", u) : u \in Users \cup {NULL}} \cup {Op("set_host", h) : h \in Hosts}
                   \cup {Op("set_port", p) : p \in Ports \cup {NULL}}
              ELSE {})

Apply(k, w, o) == EditApply(Fam, k, w, o)

\* C05: the intended records of a setter re-parse to themselves and are valid (sufficiency)
Records(w, o) ==
    CASE o.op = "set_scheme"    -> SetSchemeR(w, o.arg)
      [] o.op = "set_authority" -> SetAuthorityR(w, o.arg)
      [] o.op = "set_path"      -> SetPathR(w, o.arg)
      [] o.op = "set_query"     -> SetQueryR(w, o.arg)
      [] o.op = "set_fragment"  -> SetFragmentR(w, o.arg)
      [] OTHER -> {}
Sufficient(k, w, o) ==
    \A R \in Records(w, o) :
        /\ Parts(Recompose(R)) = R
        /\ InLang(RefType(Fam, IF o.op = "set_scheme" /\ o.arg = NULL THEN "ref" ELSE k), Recompose(R))
\* frame: components not targeted keep their value (the path up to R1-R3)
Frame(w, o) ==
    LET P == Parts(w)
    IN  \A R \in Records(w, o) :
          /\ o.op # "set_scheme" => R.scheme = P.scheme
          /\ o.op # "set_authority" => R.authority = P.authority
          /\ o.op # "set_query" => R.query = P.query
          /\ o.op # "set_fragment" => R.fragment = P.fragment
          /\ o.op = "set_scheme" => R.scheme = o.arg
          /\ o.op = "set_authority" => R.authority = o.arg
          /\ o.op = "set_query" => R.query = o.arg
          /\ o.op = "set_fragment" => R.fragment = o.arg
          /\ o.op = "set_path" => R.path \in PlacePath(P.scheme, P.authority, o.arg)
          /\ o.op # "set_path" =>
               (R.path = P.path \/ R.path = <<cSLASH>> \o P.path \/ R.path = <<cSLASH, cDOT>> \o P.path
                \/ R.path = <<cDOT, cSLASH>> \o P.path)

Case(k, w, o, post) ==
    [k |-> "edit", fam |-> IF IsAsciiT(w) /\ IsAsciiT(o.arg) THEN "both" ELSE "iri",
     kind |-> k, pre |-> w, op |-> o.op, arg |-> o.arg, post |-> post]

Inits == {<<"ref", <<>>>>, <<"full", <<115, 58>>>>, <<"ref", <<47, 47, 104>>>>,
          <<"full", <<115, 58, 47, 47, 104, 47, 97, 63, 113, 35, 102>>>>, <<"ref", <<97, 47, 98>>>>}

Init == \E i \in Inits : kind = i[1] /\ text = i[2]

Next ==
    \E o \in Ops(kind, text) :
        LET post == Apply(kind, text, o)
        IN  /\ Assert(post # {}, <<"no admissible result", kind, text, o>>)
            /\ Assert(Sufficient(kind, text, o), <<"rules not sufficient", kind, text, o>>)
            /\ Assert(Frame(text, o), <<"frame", kind, text, o>>)
            /\ PrintT(ToJson(Case(kind, text, o, post)))
            /\ \E t \in post :
                 /\ Len(t) <= MaxLen
                 /\ text' = t
                 /\ kind' = IF o.op = "set_scheme" /\ o.arg = NULL THEN "ref"
                            ELSE IF o.op = "resolve" THEN "full" ELSE kind

\* C04 on the specification: the specified editor never leaves the language
Closed == InLang(Ty, text)
=============================================================================
