CONSTANTS
  Depth = 3
  Fam = "iri"
  Rich = TRUE
INIT Init
NEXT Next
INVARIANT Theorems
CHECK_DEADLOCK FALSE
