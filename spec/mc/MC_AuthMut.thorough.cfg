CONSTANTS
  Depth = 3
  Fam = "iri"
  Rich = TRUE
INIT Init
NEXT Next
INVARIANT Coherent
CHECK_DEADLOCK FALSE
