CONSTANTS
  Vocab <- VocabC
  MaxSegs = 6
INIT Init
NEXT Next
INVARIANT Consistent
CHECK_DEADLOCK FALSE
