CONSTANTS
  Vocab <- VocabC
  MaxSegs = 5
INIT Init
NEXT Next
INVARIANT Consistent
CHECK_DEADLOCK FALSE
