----------------------------- MODULE MC_Compose -----------------------------
(***************************************************************************)
(* C02 / C03 / C16-base / C20: long structured references composed from    *)
(* component vocabularies (every presence/emptiness combination of scheme, *)
(* authority, query, fragment; IP-literals; delimiter characters inside    *)
(* later components; multi-byte and private-use characters), filtered by   *)
(* the side conditions of RFC 3986 section 3 (validity + reading back),    *)
(* each printed with its decomposition as a "ref" case.  Complements the   *)
(* exhaustive short texts of MC_Parts with long ones.                      *)
(***************************************************************************)
EXTENDS Admit, Ranges, Vocab, TLC, Json

CONSTANTS MaxSegs, Fam

RECURSIVE SeqsUpTo(_, _)
SeqsUpTo(V, n) == IF n = 0 THEN {<<>>}
                  ELSE LET S == SeqsUpTo(V, n - 1) IN S \cup {Append(s, v) : s \in {x \in S : Len(x) = n - 1}, v \in V}
OrNull(S) == S \cup {NULL}
IsAscii(t) == \A i \in 1..Len(t) : t[i] < 128

VARIABLES sch, auth, text
vars == <<sch, auth, text>>

Case(t) ==
    LET P == Parts(t)
    IN  [k |-> "ref", fam |-> IF IsAscii(t) THEN "both" ELSE "iri", w |-> t,
         p |-> P, off |-> PartsOff(t), full |-> (P.scheme # NULL),
         a |-> IF P.authority # NULL THEN AuthParts(P.authority) ELSE [none |-> TRUE],
         aoff |-> IF P.authority # NULL THEN AuthOff(P.authority) ELSE [none |-> TRUE],
         base |-> BaseOf(t)]

Init == sch = <<0>> /\ auth = <<0>> /\ text = <<>>
\* two steps so that the work is spread over TLC's workers
Pick == /\ sch = <<0>>
        /\ sch' \in OrNull(VCoScheme) /\ auth' \in OrNull(VCoAuth) /\ text' = <<>>
Compose ==
    /\ sch # <<0>> /\ text = <<>>
    /\ \E ab \in BOOLEAN, segs \in SeqsUpTo(VCoSeg, MaxSegs), q \in OrNull(VCoQuery), f \in OrNull(VCoFrag) :
         LET P == MkParts(sch, auth, Join(ab, segs), q, f)
             t == Recompose(P)
         IN  /\ t # <<>>
             /\ InLang(RefType(Fam, "ref"), t) /\ Parts(t) = P           \* section 3 side conditions
             /\ text' = t /\ UNCHANGED <<sch, auth>>
             /\ PrintT(ToJson(Case(t)))
Next == Pick \/ Compose

(* the decomposition theorems of MC_Parts, on these long texts *)
Theorems ==
    text # <<>> =>
        /\ Recompose(Parts(text)) = text
        /\ RangesOrdered(text)
        /\ (Parts(text).scheme # NULL) = InLang(RefType(Fam, "full"), text)
        /\ IsPrefixOf(BaseOf(text), text) /\ InLang(RefType(Fam, "ref"), BaseOf(text))
=============================================================================
