------------------------------- MODULE MC_Pct -------------------------------
(***************************************************************************)
(* C19: component texts made of <= MaxTok tokens over a token alphabet     *)
(* that contains every class of Unicode Table 3-7 (well-formed sequences   *)
(* split over several escapes, lone continuation / lead bytes, truncated   *)
(* sequences, overlongs, encoded surrogates, > F4), for user info, host,   *)
(* segment, query and fragment of both families.  Printed with the decoded *)
(* octets, well-formedness and (when well-formed) the decoded characters.  *)
(***************************************************************************)
EXTENDS Pct, Lang, Vocab, TLC, Json

CONSTANTS MaxTok, DeepTypes, DeepTok

PctTypes == {"UUserInfo", "UHost", "USegment", "UQuery", "UFragment",
             "IUserInfo", "IHost", "ISegment", "IQuery", "IFragment"}

VARIABLES ty, w, n
vars == <<ty, w, n>>

Limit(t) == IF t \in DeepTypes THEN DeepTok ELSE MaxTok

Case(t, x) ==
    LET os == PctDecode(x)
        wf == WellFormedUtf8(os)
    IN  [k |-> "pct", ty |-> t, w |-> x, bytes |-> os, utf8 |-> wf,
         chars |-> IF wf THEN Utf8Decode(os) ELSE <<>>]

Init == ty = "none" /\ w = <<>> /\ n = 0
Pick == ty = "none" /\ ty' \in PctTypes /\ w' = <<>> /\ n' = 0 /\ PrintT(ToJson(Case(ty', <<>>)))
Grow == /\ ty # "none" /\ n < Limit(ty)
        /\ \E tok \in VPctTok :
              /\ w' = w \o tok /\ n' = n + 1 /\ ty' = ty
              /\ (InLang(ty, w') => PrintT(ToJson(Case(ty, w'))))
Next == Pick \/ Grow

(* Design theorems: decoding is faithful and total *)
Theorems ==
    ty # "none" =>
      LET os == PctDecode(w)
      IN  /\ \A i \in 1..Len(os) : os[i] >= 0 /\ os[i] <= 255
          /\ WellFormedUtf8(os) => Utf8EncAll(Utf8Decode(os)) = os      \* UTF-8 round trip
          /\ WellFormedUtf8(os) => \A i \in 1..Len(Utf8Decode(os)) : IsScalar(Utf8Decode(os)[i])
          /\ (\A i \in 1..Len(w) : w[i] # cPCT) => os = Utf8EncAll(w)    \* no escape: the text's own octets
=============================================================================
