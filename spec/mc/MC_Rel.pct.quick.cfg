CONSTANTS
  SegsA = 2
  SegsB = 2
  Fam = "iri"
  Mode = "pct"
INIT Init
NEXT Next
INVARIANT Satisfiable
INVARIANT SuffixTheorem
CHECK_DEADLOCK FALSE
