INIT Init
NEXT Next
INVARIANT Facts
CHECK_DEADLOCK FALSE
