CONSTANTS
  Fam = "iri"
  Alphabet = {97, 58, 47, 63, 35, 64, 233, 57344, 128512}
  MaxLen = 5
INIT Init
NEXT Next
INVARIANT Theorems
CHECK_DEADLOCK FALSE
