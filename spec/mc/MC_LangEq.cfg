CONSTANT Types <- AllTypesC
INIT Init
NEXT Next
INVARIANT Agree
VIEW View
CHECK_DEADLOCK FALSE
