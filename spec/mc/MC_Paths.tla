------------------------------ MODULE MC_Paths ------------------------------
(***************************************************************************)
(* C09 / C12 (queries): every path of <= MaxSegs segments over Vocab,      *)
(* absolute and relative.  TLC checks the design theorems of dot-segment   *)
(* normalisation on each and prints each path with everything the          *)
(* specification says about it: segment list, first/last/file name/        *)
(* directory/parent, normalized segments, the admissible texts of the      *)
(* normalized copy and of in-place normalisation stand-alone and inside    *)
(* references (whose other components must re-parse unchanged).            *)
(***************************************************************************)
EXTENDS Admit, TLC, Json

CONSTANTS Vocab, MaxSegs, Fam

VARIABLES abs, segs, done
vars == <<abs, segs, done>>

P == Join(abs, segs)
IsAsciiT(t) == \A i \in 1..Len(t) : t[i] < 128
Distinct == Segs(P) = segs /\ IsAbs(P) = abs

SA == StandAlone(Fam)

ParentSet(p) ==
    IF Segs(p) = <<>> THEN {NULL}
    ELSE IF ~IsAbs(p) /\ Len(Segs(p)) = 1 THEN {NULL, <<>>}   \* pinned by the repository's tests: None
    ELSE Admissible(SA, p, IsAbs(p), FrontOf(Segs(p)))
ParentOrEmptySet(p) ==
    IF Segs(p) = <<>> \/ (~IsAbs(p) /\ Len(Segs(p)) = 1)
    THEN {IF IsAbs(p) THEN <<cSLASH>> ELSE <<>>}
    ELSE ParentSet(p)

\* the enclosing references a path is normalised in
sS == <<115>>  hH == <<104>>  qQ == <<113>>  fF == <<102>>
Contexts ==
    << [fam |-> Fam, kind |-> "ref",  scheme |-> NULL, authority |-> NULL, query |-> NULL, fragment |-> NULL],
       [fam |-> Fam, kind |-> "full", scheme |-> sS,   authority |-> NULL, query |-> NULL, fragment |-> NULL],
       [fam |-> Fam, kind |-> "ref",  scheme |-> NULL, authority |-> hH,   query |-> NULL, fragment |-> NULL],
       [fam |-> Fam, kind |-> "full", scheme |-> sS,   authority |-> hH,   query |-> qQ,   fragment |-> fF],
       [fam |-> Fam, kind |-> "ref",  scheme |-> NULL, authority |-> NULL, query |-> qQ,   fragment |-> fF],
       [fam |-> Fam, kind |-> "ref",  scheme |-> sS,   authority |-> <<>>, query |-> NULL, fragment |-> NULL] >>

CtxCase(ctx, p) ==
    [kind |-> ctx.kind, pre |-> Embed(ctx, p),
     post |-> {Embed(ctx, c) : c \in AdmissibleN(ctx, p, IsAbs(p), NormSegs(p))}]

RECURSIVE CtxCases(_, _)
CtxCases(k, p) ==
    IF k > Len(Contexts) THEN <<>>
    ELSE (IF ValidIn(Contexts[k], p) THEN <<CtxCase(Contexts[k], p)>> ELSE <<>>) \o CtxCases(k + 1, p)

Case(p) ==
    [k |-> "path", fam |-> IF IsAsciiT(p) THEN "both" ELSE "iri", p |-> p,
     abs |-> IsAbs(p), empty |-> PathIsEmpty(p), count |-> SegCount(p), segs |-> Segs(p),
     first |-> FirstSeg(p), last |-> LastSeg(p), file_name |-> FileName(p),
     directory |-> Directory(p), parent |-> ParentSet(p), parent_or_empty |-> ParentOrEmptySet(p),
     nsegs |-> NormSegs(p),
     normalized |-> AdmissibleN(SA, p, IsAbs(p), NormCopySegs(p)),
     inplace |-> AdmissibleN(SA, p, IsAbs(p), NormSegs(p)),
     ctxs |-> CtxCases(1, p)]

(* Long paths: more than 16 normalized segments and more than 512 bytes, the two inline-buffer *)
(* thresholds of the implementation (SmallVec spill), built from repeating patterns.           *)
RECURSIVE RepeatSeg(_, _)
RepeatSeg(s, n) == IF n = 0 THEN <<>> ELSE s \o RepeatSeg(s, n - 1)
Big == RepeatSeg(<<97, 98, 99, 100, 101, 102, 103, 104, 105, 106>>, 6)           \* a 60-byte segment
Patterns == << <<<<97>>, <<98>>>>,                                 \* a/b/a/b...
               <<<<97>>, DOTDOT, <<98>>, DOT>>,                    \* a/../b/./...
               <<<<97>>, <<98>>, DOTDOT>>,                         \* a/b/../...
               <<DOTDOT, <<97>>>>,                                 \* ../a/../a
               <<<<97>>, <<>>, <<98, 58, 99>>>>,                   \* a//b:c/...
               <<Big, <<233>>, DOTDOT, Big>>,
               <<<<97>>, DOTDOT, <<>>, Big, <<98, 58, 99>>, Big, Big, Big, Big, Big, Big, Big, Big, Big, DOT>> >>   \* a/..//Big/b:c/Big.../.
PatternPath(k, n) == [i \in 1..n |-> Patterns[k][((i - 1) % Len(Patterns[k])) + 1]]
\* a leading empty segment behind its shield ("/.//a/b...", "/x/..//a/b...") in front of many segments:
\* the shield rules and the spill of the segment stack at once
LeadEmpty == {<<DOT, <<>>>>, <<<<120>>, DOTDOT, <<>>>>, <<<<>>>>}
LongSegLists == {PatternPath(k, n) : k \in 1..(Len(Patterns) - 2), n \in {16, 17, 18, 33}}
                \cup {pre \o PatternPath(k, n) : pre \in LeadEmpty, k \in {1, 5}, n \in {15, 16, 17}}
                \* > 512 bytes of normalized segments (ten 60-byte ones); ~30 s of TLC time: thorough tier only
                \cup (IF MaxSegs = 0 THEN {PatternPath(Len(Patterns) - 1, 20), PatternPath(Len(Patterns), 15),
                                           \* more than 512 bytes that cancel out to ONE empty segment ("/B/B/.../../../")
                                           [i \in 1..21 |-> IF i <= 10 THEN Big ELSE IF i <= 20 THEN DOTDOT ELSE <<>>],
                                           [i \in 1..22 |-> IF i <= 10 THEN Big ELSE IF i <= 20 THEN DOTDOT ELSE IF i = 21 THEN <<>> ELSE <<97>>]}
                      ELSE {})

Init == abs \in BOOLEAN /\ segs = <<>> /\ done = TRUE /\ PrintT(ToJson(Case(Join(abs, <<>>))))
\* two steps, so that the long paths are spread over TLC's workers (the successors of one
\* state are computed by one thread)
Long == /\ segs = <<>> /\ done
        /\ \E L \in LongSegLists : segs' = L /\ abs' = abs /\ done' = FALSE
EmitLong == /\ ~done /\ done' = TRUE /\ UNCHANGED <<abs, segs>>
            /\ LET p == Join(abs, segs) IN (Segs(p) = segs /\ IsAbs(p) = abs) => PrintT(ToJson(Case(p)))
Grow == /\ Len(segs) < MaxSegs /\ done /\ done' = TRUE
        /\ \E s \in Vocab :
             /\ segs' = Append(segs, s)
             /\ abs' = abs
             /\ LET p == Join(abs, segs')
                IN  (Segs(p) = segs' /\ IsAbs(p) = abs) => PrintT(ToJson(Case(p)))

Next == Grow \/ Long \/ EmitLong

(***************************************************************************)
(* Design theorems (C09)                                                   *)
(***************************************************************************)
Lone(X) == IF X = << <<>> >> THEN <<>> ELSE X
NoDots(X) == \A i \in 1..Len(X) : X[i] # DOT /\ (X[i] = DOTDOT => (~abs /\ \A m \in 1..i : X[m] = DOTDOT))
Theorems ==
    (Distinct /\ Len(segs) <= 18) =>      \* (the longest generated paths are only printed as cases)
      LET p == P
          N == NormSegs(p)
          copies == AdmissibleN(SA, p, abs, NormCopySegs(p))
          places == AdmissibleN(SA, p, abs, N)
      IN  \* the literal RFC algorithm and the stack walk agree on every path that starts with "/"
          /\ abs => Rfc524(p) = Normalized(p)
          \* a path without dot segments (and without a first empty segment) is its own normalisation
          /\ ((\A i \in 1..Len(segs) : ~IsDotSeg(segs[i])) /\ (segs = <<>> \/ segs[1] # <<>>)) => (p \in copies /\ p \in places)
          \* no "." is left, ".." only leading a relative path
          /\ NoDots(N)
          \* the demanded value always has a valid rendering
          /\ copies # {} /\ places # {}
          \* every admissible rendering keeps absoluteness, is a valid path, and is a fixed point
          /\ \A c \in copies \cup places :
               /\ IsAbs(c) = abs
               /\ InLang(PathType(Fam), c)
               /\ NormSegs(c) = DropLeadDot(Segs(c))
          /\ \A c \in copies : Lone(DropLeadDot(NormCopySegs(c))) = Lone(DropLeadDot(NormCopySegs(p)))
          /\ \A c \in places : Lone(NormSegs(c)) = Lone(N)
          \* inside a reference: the other components re-parse unchanged for every admissible text
          /\ \A k \in 1..Len(Contexts) :
               ValidIn(Contexts[k], p) =>
                 LET ctx == Contexts[k]
                     adm == AdmissibleN(ctx, p, abs, N)
                 IN  /\ adm # {}
                     /\ \A c \in adm :
                          LET Q == Parts(Embed(ctx, c))
                          IN  /\ Q.scheme = ctx.scheme /\ Q.authority = ctx.authority
                              /\ Q.query = ctx.query /\ Q.fragment = ctx.fragment
                              /\ Lone(NormSegs(Q.path)) = Lone(N) /\ IsAbs(Q.path) = abs

VocabUri == {<<>>, <<97>>, DOT, DOTDOT, <<98, 58, 99>>, <<37, 50, 101>>}
VocabIri == {<<>>, <<97>>, DOT, DOTDOT, <<98, 58, 99>>, <<37, 50, 101>>, <<233>>, <<97, 46, 46>>}
\* thorough: escaped dot segments (%2E%2E, .%2e), characters whose UTF-8 continuation bytes are 0xAF / 0xBF / 0xA3
VocabIriBig == VocabIri \cup {<<37, 50, 69, 37, 50, 69>>, <<46, 37, 50, 101>>, <<239>>, <<255>>, <<163>>}
\* quick: a second, small vocabulary with those segments
VocabPct == {<<97>>, DOTDOT, <<37, 50, 69, 37, 50, 69>>, <<46, 37, 50, 101>>, <<239>>, <<255, 163>>}
=============================================================================
