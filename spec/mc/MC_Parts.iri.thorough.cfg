CONSTANTS
  Fam = "iri"
  Alphabet = {97, 58, 47, 63, 35, 64, 233, 57344, 128512, 46, 37, 50}
  MaxLen = 6
INIT Init
NEXT Next
INVARIANT Theorems
CHECK_DEADLOCK FALSE
