--------------------------- MODULE MC_RefDfaBuild ---------------------------
(***************************************************************************)
(* Derives, inside TLC, the derivative automaton of each RFC production as *)
(* an explicit table (worklist construction over the cells of the regex's  *)
(* own cut points) and prints it; tools/mkrefdfa.py turns the output into  *)
(* the constants module spec/RefDfa.tla.  The table is only an accelerator *)
(* for membership tests: MC_RefDfaEq re-checks RefDfa = regex by product.  *)
(***************************************************************************)
EXTENDS Lang, TLC, Json, SequencesExt, FiniteSetsExt

CutSeqOf(t) ==
    SetToSortSeq({c \in Cuts(LangOf(t)) : c > 0 /\ c <= AlphaMax(t)} \cup {0, AlphaMax(t) + 1}, <)
CellSeq(t) == LET cs == CutSeqOf(t) IN [i \in 1..(Len(cs) - 1) |-> <<cs[i], cs[i + 1] - 1>>]

RECURSIVE IndexIn(_, _, _)
IndexIn(states, r, i) == IF i > Len(states) THEN 0 ELSE IF states[i] = r THEN i ELSE IndexIn(states, r, i + 1)

\* one state: fold over the cells, extending the state list, merging adjacent cells with equal target
RECURSIVE FoldCells(_, _, _, _, _)
FoldCells(r, cells, k, states, edges) ==
    IF k > Len(cells) THEN [states |-> states, edges |-> edges]
    ELSE LET d == Deriv(r, cells[k][1])
         IN  IF d = Empty THEN FoldCells(r, cells, k + 1, states, edges)
             ELSE LET j0 == IndexIn(states, d, 1)
                      states2 == IF j0 = 0 THEN Append(states, d) ELSE states
                      j == IF j0 = 0 THEN Len(states2) ELSE j0
                      merge == edges # <<>> /\ edges[Len(edges)][3] = j
                                  /\ edges[Len(edges)][2] + 1 = cells[k][1]
                      edges2 == IF merge
                                THEN [edges EXCEPT ![Len(edges)] = <<edges[Len(edges)][1], cells[k][2], j>>]
                                ELSE Append(edges, <<cells[k][1], cells[k][2], j>>)
                  IN  FoldCells(r, cells, k + 1, states2, edges2)

RECURSIVE Build(_, _, _, _)
Build(states, trans, i, cells) ==
    IF i > Len(states) THEN [states |-> states, trans |-> trans]
    ELSE LET res == FoldCells(states[i], cells, 1, states, <<>>)
         IN  Build(res.states, Append(trans, res.edges), i + 1, cells)

Table(t) ==
    LET b == Build(<<LangOf(t)>>, <<>>, 1, CellSeq(t))
    IN  [ty |-> t, n |-> Len(b.states),
         finals |-> SetToSortSeq({i \in 1..Len(b.states) : Nullable(b.states[i])}, <),
         trans |-> b.trans]

VARIABLE ty
Init == ty \in AllTypes /\ PrintT(ToJson(Table(ty)))
Next == UNCHANGED ty
=============================================================================
