------------------------------ MODULE Resolve ------------------------------
(***************************************************************************)
(* RFC 3986 section 5.2: reference resolution (strict parser).             *)
(*   5.2.2 component selection, 5.2.3 merge, 5.2.4 dot-segment removal     *)
(*   (Errata 4547 for paths that do not start with "/"), 5.3 recomposition *)
(***************************************************************************)
EXTENDS Admit

(* 5.2.3 *)
Merge(B, rpath) ==
    IF B.authority # NULL /\ B.path = <<>> THEN <<cSLASH>> \o rpath
    ELSE Take(B.path, LastIdx(B.path, {cSLASH})) \o rpath

(* 5.2.4.  On a path that starts with "/" the literal algorithm and the stack walk *)
(* coincide (MC_Paths proves it) and there is one answer.  On a path that does not *)
(* (only possible without authority) the literal algorithm was not designed to     *)
(* work (Errata 4547): the stack reading with its trailing "/", the literal output *)
(* and the stack reading without trailing "/" after a kept ".." are all admitted.  *)
(* When the stack reading starts with an empty segment (".//a" reads <<"", "a">>)  *)
(* its plain rendering "/a" is the literal output as well, but it no longer is a   *)
(* relative path: the rendering behind a "." shield (".//a"), which keeps the path *)
(* relative as Errata 4547 wants, is admitted too.                                 *)
RemoveDotsSet(p) ==
    IF IsAbs(p) THEN {Rfc524(p)}
    ELSE {Rfc524(p), Normalized(p)}
         \cup (IF NormSegs(p) # <<>> /\ LastOf(NormSegs(p)) = DOTDOT THEN {Join(FALSE, NormSegs(p))} ELSE {})
         \cup (IF NormCopySegs(p) # <<>> /\ NormCopySegs(p)[1] = <<>> THEN {DottedOf(FALSE, NormCopySegs(p))} ELSE {})

(* 5.2.2: the set of target records (one per admitted reading of remove_dots) *)
Targets(B, R) ==
    IF R.scheme # NULL THEN
        {MkParts(R.scheme, R.authority, t, R.query, R.fragment) : t \in RemoveDotsSet(R.path)}
    ELSE IF R.authority # NULL THEN
        {MkParts(B.scheme, R.authority, t, R.query, R.fragment) : t \in RemoveDotsSet(R.path)}
    ELSE IF R.path = <<>> THEN
        {MkParts(B.scheme, B.authority, B.path, IF R.query # NULL THEN R.query ELSE B.query, R.fragment)}
    ELSE IF IsAbs(R.path) THEN
        {MkParts(B.scheme, B.authority, t, R.query, R.fragment) : t \in RemoveDotsSet(R.path)}
    ELSE
        {MkParts(B.scheme, B.authority, t, R.query, R.fragment) : t \in RemoveDotsSet(Merge(B, R.path))}

Unambiguous(fam, T) == Parts(Recompose(T)) = T /\ InLang(RefType(fam, "full"), Recompose(T))

(* 5.3, or - when the RFC target would not re-parse to the same components - an *)
(* unambiguous rendering of the RFC path around the RFC's other components.     *)
RenderTarget(fam, T) ==
    IF Unambiguous(fam, T) THEN {Recompose(T)}
    ELSE LET ctx == [fam |-> fam, kind |-> "full", scheme |-> T.scheme, authority |-> T.authority,
                     query |-> T.query, fragment |-> T.fragment]
         IN  {Embed(ctx, c) : c \in AdmissibleN(ctx, T.path, IsAbs(T.path), Segs(T.path))}

ResolveSet(fam, b, r) == UNION {RenderTarget(fam, T) : T \in Targets(Parts(b), Parts(r))}

(* The single RFC answer where the RFC gives one (every reading agrees and it is unambiguous) *)
ResolveStrict(b, r) ==
    LET B == Parts(b)  R == Parts(r)
        rd(p) == Rfc524(p)
        T == IF R.scheme # NULL THEN MkParts(R.scheme, R.authority, rd(R.path), R.query, R.fragment)
             ELSE IF R.authority # NULL THEN MkParts(B.scheme, R.authority, rd(R.path), R.query, R.fragment)
             ELSE IF R.path = <<>> THEN MkParts(B.scheme, B.authority, B.path,
                                                IF R.query # NULL THEN R.query ELSE B.query, R.fragment)
             ELSE IF IsAbs(R.path) THEN MkParts(B.scheme, B.authority, rd(R.path), R.query, R.fragment)
             ELSE MkParts(B.scheme, B.authority, rd(Merge(B, R.path)), R.query, R.fragment)
    IN  Recompose(T)
=============================================================================
