---------------------------- MODULE Rfc3987Abnf ----------------------------
(***************************************************************************)
(* RFC 3987 section 2.2 "ABNF for IRI References and IRIs", transcribed    *)
(* rule by rule from the RFC text.  Rules shared with RFC 3986 (scheme,    *)
(* port, IP-literal, IPv4address, pct-encoded, sub-delims, unreserved)     *)
(* are taken from Rfc3986Abnf, as RFC 3987 itself does.                    *)
(***************************************************************************)
EXTENDS Rfc3986Abnf

\* ucschar = %xA0-D7FF / %xF900-FDCF / %xFDF0-FFEF / %x10000-1FFFD / %x20000-2FFFD
\*         / %x30000-3FFFD / %x40000-4FFFD / %x50000-5FFFD / %x60000-6FFFD
\*         / %x70000-7FFFD / %x80000-8FFFD / %x90000-9FFFD / %xA0000-AFFFD
\*         / %xB0000-BFFFD / %xC0000-CFFFD / %xD0000-DFFFD / %xE1000-EFFFD
UcsChar == MkAlt({Rng(160, 55295), Rng(63744, 64975), Rng(65008, 65519),
                  Rng(65536, 131069),   Rng(131072, 196605), Rng(196608, 262141),
                  Rng(262144, 327677),  Rng(327680, 393213), Rng(393216, 458749),
                  Rng(458752, 524285),  Rng(524288, 589821), Rng(589824, 655357),
                  Rng(655360, 720893),  Rng(720896, 786429), Rng(786432, 851965),
                  Rng(851968, 917501),  Rng(921600, 983037)})
\* iprivate = %xE000-F8FF / %xF0000-FFFFD / %x100000-10FFFD
IPrivate == MkAlt({Rng(57344, 63743), Rng(983040, 1048573), Rng(1048576, 1114109)})

\* iunreserved = ALPHA / DIGIT / "-" / "." / "_" / "~" / ucschar
IUnreserved == MkAlt({ALPHA, DIGIT, Chr(cMINUS), Chr(cDOT), Chr(cUNDER), Chr(cTILDE), UcsChar})
\* ipchar = iunreserved / pct-encoded / sub-delims / ":" / "@"
IPChar == MkAlt({IUnreserved, PctEncoded, SubDelims, Chr(cCOLON), Chr(cAT)})
\* iquery = *( ipchar / iprivate / "/" / "?" )
IQuery == Star(MkAlt({IPChar, IPrivate, Chr(cSLASH), Chr(cQM)}))
\* ifragment = *( ipchar / "/" / "?" )
IFragment == Star(MkAlt({IPChar, Chr(cSLASH), Chr(cQM)}))

ISegment     == Star(IPChar)                               \* isegment = *ipchar
ISegmentNz   == Plus(IPChar)                               \* isegment-nz = 1*ipchar
\* isegment-nz-nc = 1*( iunreserved / pct-encoded / sub-delims / "@" )
ISegmentNzNc == Plus(MkAlt({IUnreserved, PctEncoded, SubDelims, Chr(cAT)}))

ISlashSegs == Star(MkCat(Chr(cSLASH), ISegment))
IPathAbEmpty  == ISlashSegs                                \* ipath-abempty  = *( "/" isegment )
IPathAbsolute == MkCat(Chr(cSLASH), Opt(MkCat(ISegmentNz, ISlashSegs)))
IPathNoScheme == MkCat(ISegmentNzNc, ISlashSegs)
IPathRootless == MkCat(ISegmentNz, ISlashSegs)
IPathEmpty    == Eps
\* ipath = ipath-abempty / ipath-absolute / ipath-noscheme / ipath-rootless / ipath-empty
IPath == MkAlt({IPathAbEmpty, IPathAbsolute, IPathNoScheme, IPathRootless, IPathEmpty})

\* iuserinfo = *( iunreserved / pct-encoded / sub-delims / ":" )
IUserInfo == Star(MkAlt({IUnreserved, PctEncoded, SubDelims, Chr(cCOLON)}))
\* ireg-name = *( iunreserved / pct-encoded / sub-delims )
IRegName == Star(MkAlt({IUnreserved, PctEncoded, SubDelims}))
\* ihost = IP-literal / IPv4address / ireg-name
IHost == MkAlt({IPLiteral, IPv4address, IRegName})
\* iauthority = [ iuserinfo "@" ] ihost [ ":" port ]
IAuthority == CatSeq(<<Opt(MkCat(IUserInfo, Chr(cAT))), IHost, Opt(MkCat(Chr(cCOLON), Port))>>)

IOptQuery    == Opt(MkCat(Chr(cQM), IQuery))
IOptFragment == Opt(MkCat(Chr(cHASH), IFragment))
\* ihier-part = "//" iauthority ipath-abempty / ipath-absolute / ipath-rootless / ipath-empty
IHierPart == MkAlt({CatSeq(<<SlashSlash, IAuthority, IPathAbEmpty>>),
                    IPathAbsolute, IPathRootless, IPathEmpty})
\* IRI = scheme ":" ihier-part [ "?" iquery ] [ "#" ifragment ]
IRI == CatSeq(<<Scheme, Chr(cCOLON), IHierPart, IOptQuery, IOptFragment>>)
\* irelative-part = "//" iauthority ipath-abempty / ipath-absolute / ipath-noscheme / ipath-empty
IRelativePart == MkAlt({CatSeq(<<SlashSlash, IAuthority, IPathAbEmpty>>),
                        IPathAbsolute, IPathNoScheme, IPathEmpty})
\* irelative-ref = irelative-part [ "?" iquery ] [ "#" ifragment ]
IRelativeRef == CatSeq(<<IRelativePart, IOptQuery, IOptFragment>>)
\* IRI-reference = IRI / irelative-ref
IRIReference == Alt2(IRI, IRelativeRef)
\* absolute-IRI = scheme ":" ihier-part [ "?" iquery ]
AbsoluteIRI == CatSeq(<<Scheme, Chr(cCOLON), IHierPart, IOptQuery>>)
=============================================================================
