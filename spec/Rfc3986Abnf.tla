---------------------------- MODULE Rfc3986Abnf ----------------------------
(***************************************************************************)
(* RFC 3986, Appendix A "Collected ABNF for URI", transcribed rule by rule *)
(* from the RFC text (NOT from the repository's grammar.abnf, which is the *)
(* thing under test) into the constructors of Regex.tla.  Core rules       *)
(* ALPHA, DIGIT, HEXDIG are those of RFC 5234 Appendix B.1; quoted strings *)
(* are case-insensitive (RFC 5234 section 2.3), hence HEXDIG admits a-f    *)
(* and the "v" of IPvFuture admits "V".                                    *)
(***************************************************************************)
EXTENDS Regex, Chars

ALPHA  == Alt2(Rng(65, 90), Rng(97, 122))                \* %x41-5A / %x61-7A
DIGIT  == Rng(48, 57)                                    \* %x30-39
HEXDIG == MkAlt({DIGIT, Lit(<<cA>>), Lit(<<66>>), Lit(<<67>>),
                 Lit(<<68>>), Lit(<<69>>), Lit(<<cF>>)})  \* DIGIT / "A" / ... / "F"

\* sub-delims = "!" / "$" / "&" / "'" / "(" / ")" / "*" / "+" / "," / ";" / "="
SubDelims == MkAlt({Chr(cBANG), Chr(cDOLLAR), Chr(cAMP), Chr(cAPOS), Chr(cLPAR),
                    Chr(cRPAR), Chr(cSTAR), Chr(cPLUS), Chr(cCOMMA), Chr(cSEMI), Chr(cEQ)})
\* gen-delims = ":" / "/" / "?" / "#" / "[" / "]" / "@"
GenDelims == MkAlt({Chr(cCOLON), Chr(cSLASH), Chr(cQM), Chr(cHASH), Chr(cLBRA),
                    Chr(cRBRA), Chr(cAT)})
Reserved == Alt2(GenDelims, SubDelims)
\* unreserved = ALPHA / DIGIT / "-" / "." / "_" / "~"
Unreserved == MkAlt({ALPHA, DIGIT, Chr(cMINUS), Chr(cDOT), Chr(cUNDER), Chr(cTILDE)})
\* pct-encoded = "%" HEXDIG HEXDIG
PctEncoded == CatSeq(<<Chr(cPCT), HEXDIG, HEXDIG>>)

\* pchar = unreserved / pct-encoded / sub-delims / ":" / "@"
PChar == MkAlt({Unreserved, PctEncoded, SubDelims, Chr(cCOLON), Chr(cAT)})
\* query = *( pchar / "/" / "?" )        fragment = *( pchar / "/" / "?" )
Query    == Star(MkAlt({PChar, Chr(cSLASH), Chr(cQM)}))
Fragment == Star(MkAlt({PChar, Chr(cSLASH), Chr(cQM)}))

\* segment = *pchar   segment-nz = 1*pchar
\* segment-nz-nc = 1*( unreserved / pct-encoded / sub-delims / "@" )
Segment     == Star(PChar)
SegmentNz   == Plus(PChar)
SegmentNzNc == Plus(MkAlt({Unreserved, PctEncoded, SubDelims, Chr(cAT)}))

SlashSegs == Star(MkCat(Chr(cSLASH), Segment))           \* *( "/" segment )
PathAbEmpty  == SlashSegs                                 \* path-abempty  = *( "/" segment )
PathAbsolute == MkCat(Chr(cSLASH), Opt(MkCat(SegmentNz, SlashSegs)))
                                                          \* path-absolute = "/" [ segment-nz *( "/" segment ) ]
PathNoScheme == MkCat(SegmentNzNc, SlashSegs)             \* path-noscheme = segment-nz-nc *( "/" segment )
PathRootless == MkCat(SegmentNz, SlashSegs)               \* path-rootless = segment-nz *( "/" segment )
PathEmpty    == Eps                                       \* path-empty    = 0<pchar>
\* path = path-abempty / path-absolute / path-noscheme / path-rootless / path-empty
Path == MkAlt({PathAbEmpty, PathAbsolute, PathNoScheme, PathRootless, PathEmpty})

\* scheme = ALPHA *( ALPHA / DIGIT / "+" / "-" / "." )
Scheme == MkCat(ALPHA, Star(MkAlt({ALPHA, DIGIT, Chr(cPLUS), Chr(cMINUS), Chr(cDOT)})))

\* userinfo = *( unreserved / pct-encoded / sub-delims / ":" )
UserInfo == Star(MkAlt({Unreserved, PctEncoded, SubDelims, Chr(cCOLON)}))
\* reg-name = *( unreserved / pct-encoded / sub-delims )
RegName == Star(MkAlt({Unreserved, PctEncoded, SubDelims}))
\* port = *DIGIT
Port == Star(DIGIT)

\* dec-octet = DIGIT / %x31-39 DIGIT / "1" 2DIGIT / "2" %x30-34 DIGIT / "25" %x30-35
DecOctet == MkAlt({DIGIT,
                   MkCat(Rng(49, 57), DIGIT),
                   CatSeq(<<Chr(c1), DIGIT, DIGIT>>),
                   CatSeq(<<Chr(c2), Rng(48, 52), DIGIT>>),
                   CatSeq(<<Chr(c2), Chr(c5), Rng(48, 53)>>)})
\* IPv4address = dec-octet "." dec-octet "." dec-octet "." dec-octet
IPv4address == CatSeq(<<DecOctet, Chr(cDOT), DecOctet, Chr(cDOT), DecOctet, Chr(cDOT), DecOctet>>)

H16  == Rep(HEXDIG, 1, 4)                                 \* h16  = 1*4HEXDIG
H16c == MkCat(H16, Chr(cCOLON))                           \* ( h16 ":" )
LS32 == Alt2(CatSeq(<<H16, Chr(cCOLON), H16>>), IPv4address)   \* ls32 = ( h16 ":" h16 ) / IPv4address
DblColon == MkCat(Chr(cCOLON), Chr(cCOLON))
\* [ *n( h16 ":" ) h16 ]
OptPre(n) == Opt(MkCat(Rep(H16c, 0, n), H16))
IPv6address == MkAlt({
    \*                            6( h16 ":" ) ls32
    MkCat(Pow(H16c, 6), LS32),
    \*                       "::" 5( h16 ":" ) ls32
    CatSeq(<<DblColon, Pow(H16c, 5), LS32>>),
    \* [               h16 ] "::" 4( h16 ":" ) ls32
    CatSeq(<<Opt(H16), DblColon, Pow(H16c, 4), LS32>>),
    \* [ *1( h16 ":" ) h16 ] "::" 3( h16 ":" ) ls32
    CatSeq(<<OptPre(1), DblColon, Pow(H16c, 3), LS32>>),
    \* [ *2( h16 ":" ) h16 ] "::" 2( h16 ":" ) ls32
    CatSeq(<<OptPre(2), DblColon, Pow(H16c, 2), LS32>>),
    \* [ *3( h16 ":" ) h16 ] "::"    h16 ":"   ls32
    CatSeq(<<OptPre(3), DblColon, H16c, LS32>>),
    \* [ *4( h16 ":" ) h16 ] "::"              ls32
    CatSeq(<<OptPre(4), DblColon, LS32>>),
    \* [ *5( h16 ":" ) h16 ] "::"              h16
    CatSeq(<<OptPre(5), DblColon, H16>>),
    \* [ *6( h16 ":" ) h16 ] "::"
    CatSeq(<<OptPre(6), DblColon>>)})
\* IPvFuture = "v" 1*HEXDIG "." 1*( unreserved / sub-delims / ":" )
IPvFuture == CatSeq(<<Lit(<<cv>>), Plus(HEXDIG), Chr(cDOT),
                      Plus(MkAlt({Unreserved, SubDelims, Chr(cCOLON)}))>>)
\* IP-literal = "[" ( IPv6address / IPvFuture ) "]"
IPLiteral == CatSeq(<<Chr(cLBRA), Alt2(IPv6address, IPvFuture), Chr(cRBRA)>>)
\* host = IP-literal / IPv4address / reg-name
Host == MkAlt({IPLiteral, IPv4address, RegName})
\* authority = [ userinfo "@" ] host [ ":" port ]
Authority == CatSeq(<<Opt(MkCat(UserInfo, Chr(cAT))), Host, Opt(MkCat(Chr(cCOLON), Port))>>)

SlashSlash == MkCat(Chr(cSLASH), Chr(cSLASH))
OptQuery    == Opt(MkCat(Chr(cQM), Query))
OptFragment == Opt(MkCat(Chr(cHASH), Fragment))
\* hier-part = "//" authority path-abempty / path-absolute / path-rootless / path-empty
HierPart == MkAlt({CatSeq(<<SlashSlash, Authority, PathAbEmpty>>),
                   PathAbsolute, PathRootless, PathEmpty})
\* URI = scheme ":" hier-part [ "?" query ] [ "#" fragment ]
URI == CatSeq(<<Scheme, Chr(cCOLON), HierPart, OptQuery, OptFragment>>)
\* relative-part = "//" authority path-abempty / path-absolute / path-noscheme / path-empty
RelativePart == MkAlt({CatSeq(<<SlashSlash, Authority, PathAbEmpty>>),
                       PathAbsolute, PathNoScheme, PathEmpty})
\* relative-ref = relative-part [ "?" query ] [ "#" fragment ]
RelativeRef == CatSeq(<<RelativePart, OptQuery, OptFragment>>)
\* URI-reference = URI / relative-ref
URIReference == Alt2(URI, RelativeRef)
\* absolute-URI = scheme ":" hier-part [ "?" query ]
AbsoluteURI == CatSeq(<<Scheme, Chr(cCOLON), HierPart, OptQuery>>)
=============================================================================
