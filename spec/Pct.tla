-------------------------------- MODULE Pct --------------------------------
(***************************************************************************)
(* Percent-decoding of a component text into octets (C19), UTF-8 encoding  *)
(* of scalar values, well-formedness of octet sequences (Unicode Standard, *)
(* Table 3-7) and UTF-8 decoding.                                          *)
(***************************************************************************)
EXTENDS TextOps

IsHexC(c) == (c >= 48 /\ c <= 57) \/ (c >= 65 /\ c <= 70) \/ (c >= 97 /\ c <= 102)
HexVal(c) == IF c <= 57 THEN c - 48 ELSE IF c <= 70 THEN c - 55 ELSE c - 87

Utf8Enc(c) ==
    IF c < 128 THEN <<c>>
    ELSE IF c < 2048 THEN <<192 + (c \div 64), 128 + (c % 64)>>
    ELSE IF c < 65536 THEN <<224 + (c \div 4096), 128 + ((c \div 64) % 64), 128 + (c % 64)>>
    ELSE <<240 + (c \div 262144), 128 + ((c \div 4096) % 64), 128 + ((c \div 64) % 64), 128 + (c % 64)>>

RECURSIVE Utf8EncAll(_)
Utf8EncAll(w) == IF w = <<>> THEN <<>> ELSE Utf8Enc(Head(w)) \o Utf8EncAll(Tail(w))

(* the octets of a component: each %XX is that octet, everything else its UTF-8 octets *)
RECURSIVE PctDecode(_)
PctDecode(w) ==
    IF w = <<>> THEN <<>>
    ELSE IF w[1] = cPCT /\ Len(w) >= 3 /\ IsHexC(w[2]) /\ IsHexC(w[3])
         THEN <<16 * HexVal(w[2]) + HexVal(w[3])>> \o PctDecode(Drop(w, 3))
    ELSE Utf8Enc(w[1]) \o PctDecode(Tail(w))

In(x, lo, hi) == x >= lo /\ x <= hi
Cont(x) == In(x, 128, 191)

(* Table 3-7: length of the well-formed sequence starting os, 0 if none *)
WfLen(os) ==
    LET n == Len(os)
        b1 == os[1]
    IN  IF b1 <= 127 THEN 1
        ELSE IF In(b1, 194, 223) THEN (IF n >= 2 /\ Cont(os[2]) THEN 2 ELSE 0)
        ELSE IF b1 = 224 THEN (IF n >= 3 /\ In(os[2], 160, 191) /\ Cont(os[3]) THEN 3 ELSE 0)
        ELSE IF In(b1, 225, 236) THEN (IF n >= 3 /\ Cont(os[2]) /\ Cont(os[3]) THEN 3 ELSE 0)
        ELSE IF b1 = 237 THEN (IF n >= 3 /\ In(os[2], 128, 159) /\ Cont(os[3]) THEN 3 ELSE 0)
        ELSE IF In(b1, 238, 239) THEN (IF n >= 3 /\ Cont(os[2]) /\ Cont(os[3]) THEN 3 ELSE 0)
        ELSE IF b1 = 240 THEN (IF n >= 4 /\ In(os[2], 144, 191) /\ Cont(os[3]) /\ Cont(os[4]) THEN 4 ELSE 0)
        ELSE IF In(b1, 241, 243) THEN (IF n >= 4 /\ Cont(os[2]) /\ Cont(os[3]) /\ Cont(os[4]) THEN 4 ELSE 0)
        ELSE IF b1 = 244 THEN (IF n >= 4 /\ In(os[2], 128, 143) /\ Cont(os[3]) /\ Cont(os[4]) THEN 4 ELSE 0)
        ELSE 0

RECURSIVE WellFormedUtf8(_)
WellFormedUtf8(os) ==
    os = <<>> \/ (WfLen(os) > 0 /\ WellFormedUtf8(Drop(os, WfLen(os))))

Scalar(os, n) ==
    IF n = 1 THEN os[1]
    ELSE IF n = 2 THEN (os[1] - 192) * 64 + (os[2] - 128)
    ELSE IF n = 3 THEN (os[1] - 224) * 4096 + (os[2] - 128) * 64 + (os[3] - 128)
    ELSE (os[1] - 240) * 262144 + (os[2] - 128) * 4096 + (os[3] - 128) * 64 + (os[4] - 128)

(* defined on well-formed input *)
RECURSIVE Utf8Decode(_)
Utf8Decode(os) ==
    IF os = <<>> THEN <<>>
    ELSE LET n == WfLen(os) IN <<Scalar(os, n)>> \o Utf8Decode(Drop(os, n))

=============================================================================
