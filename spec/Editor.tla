------------------------------- MODULE Editor -------------------------------
(***************************************************************************)
(* The in-place editor of owned buffers (C04, C05, C10, C11) as functions  *)
(* from the current text to the SET of admissible next texts.              *)
(*                                                                         *)
(* Component setters fix the resulting text: the targeted component reads  *)
(* back as requested, every other one byte-identical, and the only side    *)
(* effects are the three documented disambiguations, applied exactly when  *)
(* the text would otherwise be invalid or read differently:                *)
(*   R1  a relative path gains a leading "/" when an authority is present  *)
(*   R2  a path beginning with "//" gains a leading "/." when no authority *)
(*   R3  a path whose first segment contains ":" gains a leading "./" when *)
(*       neither scheme nor authority is present                           *)
(* (an EMPTY path under an authority may stay empty or become "/").        *)
(***************************************************************************)
EXTENDS Resolve

FirstSegHasColon(p) == ~IsAbs(p) /\ Segs(p) # <<>> /\ Has(Segs(p)[1], cCOLON)

(* the admissible texts of path p placed after (scheme s, authority a) *)
PlacePath(s, a, p) ==
    IF a # NULL THEN
        (IF p = <<>> THEN {<<>>, <<cSLASH>>}                          \* R1, optional on the empty path
         ELSE IF ~IsAbs(p) THEN {<<cSLASH>> \o p}                     \* R1
         ELSE {p})
    ELSE IF StartsWith(p, <<cSLASH, cSLASH>>) THEN {<<cSLASH, cDOT>> \o p}     \* R2
    ELSE IF s = NULL /\ FirstSegHasColon(p) THEN {<<cDOT, cSLASH>> \o p}       \* R3
    ELSE {p}

(* Setters as functions to the set of intended component RECORDS ... *)
WithPathR(P, paths) == {[P EXCEPT !.path = t] : t \in paths}

SetSchemeR(w, s) ==
    LET P == Parts(w)
    IN  WithPathR([P EXCEPT !.scheme = s],
                  IF s = NULL /\ P.authority = NULL /\ FirstSegHasColon(P.path)
                  THEN {<<cDOT, cSLASH>> \o P.path} ELSE {P.path})

SetAuthorityR(w, a) ==
    LET P == Parts(w)
    IN  IF a # NULL THEN
            WithPathR([P EXCEPT !.authority = a],
                      IF P.authority # NULL THEN {P.path}         \* replacing: the path is already in place
                      ELSE PlacePath(P.scheme, a, P.path))
        ELSE WithPathR([P EXCEPT !.authority = NULL],
                       IF StartsWith(P.path, <<cSLASH, cSLASH>>) THEN {<<cSLASH, cDOT>> \o P.path}
                       ELSE IF P.scheme = NULL /\ FirstSegHasColon(P.path) THEN {<<cDOT, cSLASH>> \o P.path}
                       ELSE {P.path})

SetPathR(w, p) == LET P == Parts(w) IN WithPathR(P, PlacePath(P.scheme, P.authority, p))
SetQueryR(w, q)    == LET P == Parts(w) IN {[P EXCEPT !.query = q]}
SetFragmentR(w, f) == LET P == Parts(w) IN {[P EXCEPT !.fragment = f]}

(* ... and to the set of admissible texts (RFC 3986 5.3 recomposition of the record) *)
Texts(Rs) == {Recompose(R) : R \in Rs}
SetScheme(w, s)    == Texts(SetSchemeR(w, s))
SetAuthority(w, a) == Texts(SetAuthorityR(w, a))
SetPath(w, p)      == Texts(SetPathR(w, p))
SetQuery(w, q)     == Texts(SetQueryR(w, q))
SetFragment(w, f)  == Texts(SetFragmentR(w, f))

(***************************************************************************)
(* C10: path editing on the abstract value (absoluteness, segment list).   *)
(***************************************************************************)
PopSegs(ab, X) ==
    IF X = <<>> THEN (IF ab THEN X ELSE <<DOTDOT>>)
    ELSE IF LastOf(X) = DOTDOT THEN Append(X, DOTDOT)
    ELSE FrontOf(X)

\* one step of the symbolic reading: <<list, open>>
SymStep(ab, st, s) ==
    IF s = DOT THEN <<st[1], TRUE>>
    ELSE IF s = DOTDOT THEN <<PopSegs(ab, st[1]), TRUE>>
    ELSE <<Append(st[1], s), FALSE>>

RECURSIVE SymFold(_, _, _)
SymFold(ab, st, ss) == IF ss = <<>> THEN st ELSE SymFold(ab, SymStep(ab, st, Head(ss)), Tail(ss))

SymAppendSegs(ab, X, ss) ==
    LET r == SymFold(ab, <<X, FALSE>>, ss)
    IN  IF r[2] /\ r[1] # <<>> THEN Append(r[1], <<>>) ELSE r[1]
(* the public symbolic_push is symbolic_append of one segment *)
SymPushSegs(ab, X, s) == SymAppendSegs(ab, X, <<s>>)

NormalizeSegs(ab, X) == Walk(X, <<>>, ~ab)

(* push is a strict list operation; the others have directory meaning, where a list *)
(* made of one empty segment has no text of its own (see AdmissibleN).            *)
LoneOk(opname) == opname # "push"

(* ops: <<"push", s>>, <<"pop">>, <<"clear">>, <<"sym_push", s>>, <<"sym_append", ss>>, <<"normalize">> *)
ApplyPathOp(ab, X, op) ==
    CASE op[1] = "push"       -> Append(X, op[2])
      [] op[1] = "pop"        -> PopSegs(ab, X)
      [] op[1] = "clear"      -> <<>>
      [] op[1] = "sym_push"   -> SymPushSegs(ab, X, op[2])
      [] op[1] = "sym_append" -> SymAppendSegs(ab, X, op[2])
      [] op[1] = "normalize"  -> NormalizeSegs(ab, X)

(* A path that follows an authority is absolute (as soon as it has a segment). *)
AbsOf(ctx, p) == IsAbs(p) \/ ctx.authority # NULL

(* Admissible renderings after a step; mayDot: some admissible rendering of the   *)
(* previous step carried a leading "." (the implementation may have kept it).     *)
AdmissibleStep(ctx, mayDot, ab, X) ==
    LET plain  == PlainOf(ab, X)
        dotted == DottedOf(ab, X)
        Ok(c)  == ReadsAs(c, ab, X) /\ ValidIn(ctx, c)
        literal == Join(ab, X)                       \* the list written as it is (X may itself start with ".")
        base   == {c \in {plain, dotted, literal} :
                     /\ Ok(c)
                     /\ (c = dotted /\ c # literal /\ ~mayDot)
                           => (NeedsShield(DropLeadDot(X)) /\ (~Ok(plain) \/ ctx.kind = "path"))}
        \* an empty path under an authority may read "" or "/"
        empties == IF DropLeadDot(X) = <<>> /\ ctx.authority # NULL THEN {<<>>, <<cSLASH>>} ELSE {}
    IN  base \cup {c \in empties : ValidIn(ctx, c)}

(* The same judgement for ONE observed text c (trace validation): c is a member of   *)
(* AdmissibleStep(ctx, mayDot, ab, X) - written so that the language membership of c *)
(* (validC = ValidIn(ctx, c), the expensive part) is computed once by the caller.    *)
AdmitsView(ctx, mayDot, ab, X, c, validC) ==
    LET Y == DropLeadDot(X)
        isDotted == Segs(c) = <<DOT>> \o Y
        plain == PlainOf(ab, X)
    IN  \/ /\ validC /\ ReadsAs(c, ab, X)
           /\ (isDotted /\ c # Join(ab, X) /\ ~mayDot)
                 => (NeedsShield(Y) /\ (ctx.kind = "path" \/ ~(ReadsAs(plain, ab, X) /\ ValidIn(ctx, plain))))
        \/ /\ validC /\ Y = <<>> /\ ctx.authority # NULL /\ c \in {<<>>, <<cSLASH>>}

(* For the operations with directory meaning a list made of one empty segment and  *)
(* the empty list are the same directory ("/./" = "/", "./" = ""): the abstract    *)
(* value may be either, and a behaviour forks on which one the implementation has. *)
LoneAlts(X, lone, mayDot) ==
    IF lone /\ (DropLeadDot(X) = <<>> \/ DropLeadDot(X) = << <<>> >>)
    THEN {<<>>, << <<>> >>}
         \* a "." left over in front of nothing is either a spent shield or a segment of its own
         \cup (IF mayDot \/ (X # <<>> /\ X[1] = DOT) THEN {<<DOT>>, <<DOT, <<>>>>} ELSE {})
    ELSE {X}

(* The abstract results of an operation.  For the symbolic operations the final   *)
(* "directory" slash is added when the path "has segments", which for a list made *)
(* of one empty segment depends on how it is written ("/" has none, "/./" has):   *)
(* both outcomes are results; together with LoneAlts a behaviour forks on them.   *)
IsLone(X) == DropLeadDot(X) = <<>> \/ DropLeadDot(X) = << <<>> >>
\* set-valued symbolic fold: after a ".." the list may read either way when it is lone
SymStepSet(ab, st, s, mayDot) ==
    LET n == SymStep(ab, st, s)
    IN  IF s = DOTDOT THEN {<<A, n[2]>> : A \in LoneAlts(n[1], TRUE, mayDot)} ELSE {n}
RECURSIVE SymFoldSet(_, _, _, _)
SymFoldSet(ab, S, ss, mayDot) ==
    IF ss = <<>> THEN S ELSE SymFoldSet(ab, UNION {SymStepSet(ab, st, Head(ss), mayDot) : st \in S}, Tail(ss), mayDot)
ResultsOf(ab, X, op, mayDot) ==
    IF op[1] \in {"sym_push", "sym_append"}
    THEN LET ss == IF op[1] = "sym_push" THEN <<op[2]>> ELSE op[2]
             R  == SymFoldSet(ab, {<<X, FALSE>>}, ss, mayDot)
         IN  UNION {IF r[2] /\ IsLone(r[1]) THEN {r[1], Append(r[1], <<>>)}
                    ELSE IF r[2] THEN {Append(r[1], <<>>)} ELSE {r[1]} : r \in R}
    ELSE {ApplyPathOp(ab, X, op)}
AltsOf(ab, X, op, mayDot) == UNION {LoneAlts(Y, LoneOk(op[1]), mayDot) : Y \in ResultsOf(ab, X, op, mayDot)}

(***************************************************************************)
(* C11: authority editing through a handle with a window <<start, len>>    *)
(* (in symbols) on the whole text.                                         *)
(***************************************************************************)
AuthWindow(w) ==
    LET P == Parts(w)
    IN  <<(IF P.scheme # NULL THEN Len(P.scheme) + 1 ELSE 0) + 2, Len(P.authority)>>

WinText(w, win) == SubSeq(w, win[1] + 1, win[1] + win[2])
Splice(w, win, t) == Take(w, win[1]) \o t \o Drop(w, win[1] + win[2])

(* ops: <<"set_userinfo", u|NULL>>, <<"set_host", h>>, <<"set_port", p|NULL>> *)
ApplyAuthOp(a, op) ==
    LET A == AuthParts(a)
    IN  CASE op[1] = "set_userinfo" -> RecomposeAuth([A EXCEPT !.userinfo = op[2]])
          [] op[1] = "set_host"     -> RecomposeAuth([A EXCEPT !.host = op[2]])
          [] op[1] = "set_port"     -> RecomposeAuth([A EXCEPT !.port = op[2]])

AuthStep(w, win, op) ==
    LET a2 == ApplyAuthOp(WinText(w, win), op)
    IN  [text |-> Splice(w, win, a2), win |-> <<win[1], Len(a2)>>]
(***************************************************************************)
(* One public mutating call on an owned buffer of family fam and kind k    *)
(* ("ref" | "full", or "path" / "authority" for a handle on a stand-alone  *)
(* path or authority buffer) holding text w: the set of admissible texts   *)
(* afterwards.  o = [op |-> name, arg |-> text | NULL]                     *)
(***************************************************************************)
PathOpOf(o) == IF o.op \in {"push", "sym_push"} THEN <<o.op, o.arg>> ELSE <<o.op>>

\* the set of admissible texts after the operation
EditType(fam, k) ==
    CASE k = "path"      -> PathType(fam)
      [] k = "authority" -> (IF fam = "uri" THEN "UAuthority" ELSE "IAuthority")
      [] OTHER           -> RefType(fam, k)
EditApply(fam, k, w, o) ==
    LET P   == IF k = "path" THEN MkParts(NULL, NULL, w, NULL, NULL) ELSE Parts(w)
        ctx == IF k = "path" THEN StandAlone(fam) ELSE CtxOf(fam, k, w)
    IN  CASE o.op = "set_scheme"    -> SetScheme(w, o.arg)
          [] o.op = "set_authority" -> SetAuthority(w, o.arg)
          [] o.op = "set_path"      -> SetPath(w, o.arg)
          [] o.op = "set_query"     -> SetQuery(w, o.arg)
          [] o.op = "set_fragment"  -> SetFragment(w, o.arg)
          [] o.op = "resolve"       -> ResolveSet(fam, o.arg, w)
          [] o.op \in {"set_userinfo", "set_host", "set_port"} ->
                {AuthStep(w, IF k = "authority" THEN <<0, Len(w)>> ELSE AuthWindow(w), <<o.op, o.arg>>).text}
          [] OTHER ->
                LET ab == AbsOf(ctx, P.path)
                IN  UNION {{Embed(ctx, c) : c \in AdmissibleStep(ctx, HasLeadDot(P.path), ab, A)}
                           : A \in AltsOf(ab, Segs(P.path), PathOpOf(o), HasLeadDot(P.path))}

=============================================================================
