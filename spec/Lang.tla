-------------------------------- MODULE Lang --------------------------------
(* The 20 validated string types of iref and the RFC production each must    *)
(* accept exactly (C01).  "byte" types range over octets, "char" types over  *)
(* Unicode scalar values.                                                    *)
EXTENDS Rfc3987Abnf, RefDfa

UriTypes == {"Uri", "UriRef", "Scheme", "UAuthority", "UUserInfo", "UHost", "Port",
             "UPath", "USegment", "UQuery", "UFragment"}
IriTypes == {"Iri", "IriRef", "IAuthority", "IUserInfo", "IHost",
             "IPath", "ISegment", "IQuery", "IFragment"}
AllTypes == UriTypes \cup IriTypes

LangOf(ty) ==
    CASE ty = "Uri"        -> URI
      [] ty = "UriRef"     -> URIReference
      [] ty = "Scheme"     -> Scheme
      [] ty = "UAuthority" -> Authority
      [] ty = "UUserInfo"  -> UserInfo
      [] ty = "UHost"      -> Host
      [] ty = "Port"       -> Port
      [] ty = "UPath"      -> Path
      [] ty = "USegment"   -> Segment
      [] ty = "UQuery"     -> Query
      [] ty = "UFragment"  -> Fragment
      [] ty = "Iri"        -> IRI
      [] ty = "IriRef"     -> IRIReference
      [] ty = "IAuthority" -> IAuthority
      [] ty = "IUserInfo"  -> IUserInfo
      [] ty = "IHost"      -> IHost
      [] ty = "IPath"      -> IPath
      [] ty = "ISegment"   -> ISegment
      [] ty = "IQuery"     -> IQuery
      [] ty = "IFragment"  -> IFragment

IsByteType(ty) == ty \in UriTypes
AlphaMax(ty) == IF IsByteType(ty) THEN 255 ELSE MaxScalar

(* The IRI counterpart of a URI type (C13) *)
IriOf(ty) ==
    CASE ty = "Uri" -> "Iri" [] ty = "UriRef" -> "IriRef" [] ty = "UAuthority" -> "IAuthority"
      [] ty = "UUserInfo" -> "IUserInfo" [] ty = "UHost" -> "IHost" [] ty = "UPath" -> "IPath"
      [] ty = "USegment" -> "ISegment" [] ty = "UQuery" -> "IQuery" [] ty = "UFragment" -> "IFragment"
      [] OTHER -> ty

(* Definition: membership in the RFC production. *)
InLangDef(ty, w) == Member(LangOf(ty), w)

(* Accelerator: run the table RefDfa (the derivative automaton of LangOf(ty), derived by *)
(* TLC itself and proved equal to the regex by MC_RefDfaEq).  0 = dead state.            *)
RefStep(ty, s, c) ==
    IF s = 0 THEN 0
    ELSE LET es  == RefTrans(ty)[s]
             hit == {i \in 1..Len(es) : es[i][1] <= c /\ c <= es[i][2]}
         IN  IF hit = {} THEN 0 ELSE es[CHOOSE i \in hit : TRUE][3]
RECURSIVE RefRunFrom(_, _, _, _)
RefRunFrom(ty, s, w, i) == IF i > Len(w) \/ s = 0 THEN s ELSE RefRunFrom(ty, RefStep(ty, s, w[i]), w, i + 1)
RefRun(ty, s, w) == RefRunFrom(ty, s, w, 1)
InLang(ty, w) == RefRun(ty, 1, w) \in RefFinal(ty)
=============================================================================
