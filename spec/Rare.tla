-------------------------------- MODULE Rare --------------------------------
(***************************************************************************)
(* One representative of every character class a text may meet, and the    *)
(* templates that place it at the start, inside and at the end of every    *)
(* component.  Used by the bounded models whose alphabets are too small to *)
(* hold these characters (MC_Lex, MC_Macro).                               *)
(*                                                                         *)
(* TAB CR SPACE DEL, C1 control U+0085, the Unicode White_Space characters *)
(* from U+00A0 up (all of them ucschar of RFC 3987), the byte order mark   *)
(* U+FEFF (ucschar too), first/last of several ucschar ranges, the         *)
(* non-characters next to them, private use (plane 0 and planes 15/16:     *)
(* iprivate, query only), the last scalar value.                           *)
(***************************************************************************)
EXTENDS Naturals, Sequences

\* + the bidi formatting characters (RFC 3987 4.1 discourages them, the grammar allows them), and
\* characters that ALIAS a delimiter: one UTF-8 byte = delimiter + 128 (U+00BA, U+00AF, U+00BF, U+00A3,
\* U+00A5, U+00AE, U+00FA, U+06C0, U+0740) or the low byte of the code point = delimiter (U+043A ":",
\* U+042F "/", U+043F "?", U+0423 "#", U+0440 "@", U+045B "[", U+045D "]", U+0425 "%", U+042E ".")
RareChars == {8206, 8207, 8234, 8238, 8294, 8297,
              186, 175, 191, 163, 165, 174, 250, 1728, 1856,
              1082, 1071, 1087, 1059, 1088, 1115, 1117, 1061, 1070, 20026, 26415,
              9, 13, 32, 127, 133, 160, 173, 5760, 8192, 8195, 8202, 8232, 8233, 8239, 8287, 12288, 65279,
              55295, 57344, 63743, 63744, 64975, 64976, 65007, 65008, 65519, 65520, 65533, 65534,
              65536, 131069, 131070, 917504, 917505, 983040, 1048573, 1048576, 1114109, 1114111}

\* X  Xa  aX  Xs:a  Xa/b  s:X  s://h/X  s://X/  s://X@h  ?X  #X  s://h/aXb?aX#X
RareTemplates(c) ==
    {<<c>>, <<c, 97>>, <<97, c>>, <<c, 115, 58, 97>>, <<c, 97, 47, 98>>,
     <<115, 58, c>>, <<115, 58, 47, 47, 104, 47, c>>, <<115, 58, 47, 47, c, 47>>, <<115, 58, 47, 47, c, 64, 104>>,
     <<63, c>>, <<35, c>>, <<115, 58, 47, 47, 104, 47, 97, c, 98, 63, 97, c, 35, c>>}
=============================================================================
