------------------------------ MODULE SegIter ------------------------------
(* C12: the double-ended segment iterator as a two-cursor state machine     *)
(* over Segs(p).  i = index of the next front segment, j = index of the     *)
(* next back segment; exhausted (forever) once i > j.                       *)
EXTENDS PathOps

ItInit(p) == [i |-> 1, j |-> Len(Segs(p))]
ItDone(it) == it.i > it.j
ItFront(p, it) == IF ItDone(it) THEN NULL ELSE Segs(p)[it.i]
ItBack(p, it)  == IF ItDone(it) THEN NULL ELSE Segs(p)[it.j]
ItAfterFront(it) == IF ItDone(it) THEN it ELSE [it EXCEPT !.i = @ + 1]
ItAfterBack(it)  == IF ItDone(it) THEN it ELSE [it EXCEPT !.j = @ - 1]
=============================================================================
