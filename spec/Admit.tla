------------------------------- MODULE Admit -------------------------------
(***************************************************************************)
(* Validity of a produced path where it stands, and the set of admissible  *)
(* renderings of a demanded path (DESIGN.md 3.3).                          *)
(*                                                                         *)
(* A context is either STANDALONE (the text is a path value on its own) or *)
(* a record [fam, kind, scheme, authority, query, fragment] describing the *)
(* enclosing reference: fam in {"uri","iri"}, kind in {"ref","full"}.      *)
(***************************************************************************)
EXTENDS Lang, Parts, PathOps

RefType(fam, kind) ==
    IF fam = "uri" THEN (IF kind = "full" THEN "Uri" ELSE "UriRef")
    ELSE (IF kind = "full" THEN "Iri" ELSE "IriRef")
PathType(fam) == IF fam = "uri" THEN "UPath" ELSE "IPath"

StandAlone(fam) == [fam |-> fam, kind |-> "path", scheme |-> NULL, authority |-> NULL,
                    query |-> NULL, fragment |-> NULL]
CtxOf(fam, kind, w) ==
    LET P == Parts(w)
    IN  [fam |-> fam, kind |-> kind, scheme |-> P.scheme, authority |-> P.authority,
         query |-> P.query, fragment |-> P.fragment]

InCtx(ctx, c) == MkParts(ctx.scheme, ctx.authority, c, ctx.query, ctx.fragment)
Embed(ctx, c) == IF ctx.kind = "path" THEN c ELSE Recompose(InCtx(ctx, c))

(* c is a valid path where it stands and reads back as itself *)
ValidIn(ctx, c) ==
    IF ctx.kind = "path" THEN InLang(PathType(ctx.fam), c)
    ELSE /\ InLang(RefType(ctx.fam, ctx.kind), Embed(ctx, c))
         /\ Parts(Embed(ctx, c)) = InCtx(ctx, c)

(* The admissible renderings of (abs, X) in ctx, given the previous text pre of  *)
(* the path: the plain rendering when it can stand; the rendering with one      *)
(* leading "." when the previous text already had one, or as a shield exactly   *)
(* where the plain rendering cannot stand (first segment empty or with ":"); a  *)
(* stand-alone path value may carry that shield in advance.                     *)
Admissible(ctx, pre, abs, X) ==
    LET plain  == PlainOf(abs, X)
        dotted == DottedOf(abs, X)
        Ok(c)  == ReadsAs(c, abs, X) /\ ValidIn(ctx, c)
    IN  {c \in {plain, dotted} :
            /\ Ok(c)
            /\ (c = dotted /\ ~HasLeadDot(pre)) => (NeedsShield(DropLeadDot(X)) /\ (~Ok(plain) \/ ctx.kind = "path"))}

(* Results of dot-segment removal.  A segment list made of one empty segment and  *)
(* the empty list denote the same directory under RFC 3986 5.2.4 ("/./" becomes   *)
(* "/", "./" becomes ""): there the renderings of both are admissible.            *)
AdmissibleN(ctx, pre, abs, X) ==
    IF DropLeadDot(X) = <<>> \/ DropLeadDot(X) = << <<>> >>
    THEN Admissible(ctx, pre, abs, <<>>) \cup Admissible(ctx, pre, abs, << <<>> >>)
    ELSE Admissible(ctx, pre, abs, X)
=============================================================================
