------------------------------ MODULE DataUrl ------------------------------
(***************************************************************************)
(* C18: data URLs - a valid URI of the shape                               *)
(*        "data:" media-type [ ";base64" ] "," data                        *)
(* in the two formulations the library uses: re-scanning the text (the     *)
(* borrowed accessors) and stored offsets (the owned type), plus base64.   *)
(***************************************************************************)
EXTENDS Lang, TextOps

DATA == <<100, 97, 116, 97, 58>>                  \* "data:"
BASE64C == <<98, 97, 115, 101, 54, 52, 44>>       \* "base64,"
MediaChar(c) == (c >= 48 /\ c <= 57) \/ (c >= 65 /\ c <= 90) \/ (c >= 97 /\ c <= 122)
                \/ c \in {47, 33, 35, 36, 38, 45, 43, 94, 95, 46}      \* / ! # $ & - + ^ _ .

(* stored-offset formulation: <<media_type_end, base_64, data_start>> (0-based offsets) or NULL *)
Delims(w) ==
    IF ~StartsWith(w, DATA) THEN NULL
    ELSE LET rest == Drop(w, 5)
             i    == FirstIdx(rest, {59, 44})                 \* first ";" or ","
         IN  IF i > Len(rest) THEN NULL
             ELSE IF \E k \in 1..(i - 1) : ~MediaChar(rest[k]) THEN NULL
             ELSE IF rest[i] = 44 THEN <<5 + i - 1, FALSE, 5 + i>>
             ELSE IF Sub(rest, i + 1, i + 7) = BASE64C THEN <<5 + i - 1, TRUE, 5 + i + 7>>
             ELSE NULL

IsDataUrl(w) == InLang("Uri", w) /\ Delims(w) # NULL

OffMedia(w) == LET d == Delims(w) m == SubSeq(w, 6, d[1]) IN IF m = <<>> THEN NULL ELSE m
OffB64(w)   == Delims(w)[2]
OffData(w)  == Drop(w, Delims(w)[3])

(* re-scanning formulation *)
ScanMedia(w) == LET i == FirstIdx(w, {59, 44}) m == SubSeq(w, 6, i - 1) IN IF m = <<>> THEN NULL ELSE m
ScanB64(w)   == LET i == FirstIdx(w, {59, 44}) IN w[i] = 59
ScanData(w)  == Drop(w, FirstIdx(w, {44}))

Reassemble(m, b, d) ==
    DATA \o (IF m = NULL THEN <<>> ELSE m) \o (IF b THEN <<59, 98, 97, 115, 101, 54, 52>> ELSE <<>>) \o <<44>> \o d

(* ---- base64 (RFC 4648, standard alphabet, canonical padding) ---- *)
B64Val(c) == IF c >= 65 /\ c <= 90 THEN c - 65
             ELSE IF c >= 97 /\ c <= 122 THEN c - 71
             ELSE IF c >= 48 /\ c <= 57 THEN c + 4
             ELSE IF c = 43 THEN 62 ELSE IF c = 47 THEN 63 ELSE -1
B64Alpha(c) == B64Val(c) >= 0
(* a character outside alphabet and padding: certainly an error *)
B64Foreign(d) == \E i \in 1..Len(d) : ~B64Alpha(d[i]) /\ d[i] # 61

RECURSIVE B64Quads(_)
B64Quads(d) ==
    IF d = <<>> THEN <<>>
    ELSE LET a == B64Val(d[1]) b == B64Val(d[2])
         IN  IF d[3] = 61 THEN <<a * 4 + b \div 16>>                                    \* xx==
             ELSE LET c == B64Val(d[3])
                  IN  IF d[4] = 61 THEN <<a * 4 + b \div 16, (b % 16) * 16 + c \div 4>>  \* xxx=
                      ELSE <<a * 4 + b \div 16, (b % 16) * 16 + c \div 4, (c % 4) * 64 + B64Val(d[4])>>
                           \o B64Quads(Drop(d, 4))
(* canonical: whole quads, padding only at the very end, unused trailing bits zero *)
B64Canonical(d) ==
    /\ Len(d) % 4 = 0
    /\ \A i \in 1..Len(d) : B64Alpha(d[i]) \/ (d[i] = 61 /\ i >= Len(d) - 1 /\ (i = Len(d) \/ d[Len(d)] = 61))
    /\ Len(d) > 0 /\ d[Len(d)] = 61 =>
         IF d[Len(d) - 1] = 61 THEN B64Val(d[Len(d) - 2]) % 16 = 0 ELSE B64Val(d[Len(d) - 1]) % 4 = 0
B64Decode(d) == B64Quads(d)
=============================================================================
