------------------------------- MODULE Regex -------------------------------
(***************************************************************************)
(* Regular expressions over an alphabet of naturals (bytes or Unicode      *)
(* scalar values), as TLA+ values, with Brzozowski derivatives.            *)
(*                                                                         *)
(*   <<"empty">>          no word                                          *)
(*   <<"eps">>            the empty word                                   *)
(*   <<"rng", lo, hi>>    one symbol c with lo <= c <= hi                  *)
(*   <<"cat", a, b>>      concatenation (right-nested by MkCat)            *)
(*   <<"alt", S>>         union of the regexes in the SET S (ACI for free) *)
(*   <<"star", r>>        Kleene star                                      *)
(*                                                                         *)
(* All regexes are built with the smart constructors below, which keep     *)
(* them in a normal form where the empty language is exactly Empty.  The   *)
(* set of derivatives of a regex modulo this normal form is finite         *)
(* (Brzozowski 1964), which is what lets TLC explore the *complete*        *)
(* derivative automaton.                                                   *)
(***************************************************************************)
EXTENDS Integers, Sequences, FiniteSets

Empty == <<"empty">>
Eps   == <<"eps">>
Rng(lo, hi) == <<"rng", lo, hi>>
Chr(c) == Rng(c, c)

Tag(r) == r[1]

RECURSIVE MkCat(_, _)
MkCat(a, b) ==
    IF a = Empty \/ b = Empty THEN Empty
    ELSE IF a = Eps THEN b
    ELSE IF b = Eps THEN a
    ELSE IF Tag(a) = "cat" THEN <<"cat", a[2], MkCat(a[3], b)>>
    ELSE <<"cat", a, b>>

(* Union of a set of regexes: flattened, without Empty. *)
AltMembers(r) == IF Tag(r) = "alt" THEN r[2] ELSE IF r = Empty THEN {} ELSE {r}
MkAlt(S) ==
    LET flat == UNION {AltMembers(r) : r \in S}
    IN  IF flat = {} THEN Empty
        ELSE IF Cardinality(flat) = 1 THEN CHOOSE r \in flat : TRUE
        ELSE <<"alt", flat>>
Alt2(a, b) == MkAlt({a, b})
Alt3(a, b, c) == MkAlt({a, b, c})

Star(r) ==
    IF r = Empty \/ r = Eps THEN Eps
    ELSE IF Tag(r) = "star" THEN r
    ELSE <<"star", r>>

Opt(r)  == Alt2(Eps, r)
Plus(r) == MkCat(r, Star(r))

RECURSIVE Pow(_, _)
Pow(r, n) == IF n = 0 THEN Eps ELSE MkCat(r, Pow(r, n - 1))

(* r{lo,hi}: r^lo followed by at most hi-lo further copies. *)
RECURSIVE UpTo(_, _)
UpTo(r, n) == IF n = 0 THEN Eps ELSE Opt(MkCat(r, UpTo(r, n - 1)))
Rep(r, lo, hi) == MkCat(Pow(r, lo), UpTo(r, hi - lo))

RECURSIVE CatSeq(_)
CatSeq(rs) == IF rs = <<>> THEN Eps ELSE MkCat(Head(rs), CatSeq(Tail(rs)))

(* RFC 5234: a quoted string is case-insensitive. *)
IsUpper(c) == c >= 65 /\ c <= 90
IsLower(c) == c >= 97 /\ c <= 122
CiChr(c) ==
    IF IsUpper(c) THEN Alt2(Chr(c), Chr(c + 32))
    ELSE IF IsLower(c) THEN Alt2(Chr(c), Chr(c - 32))
    ELSE Chr(c)
RECURSIVE Lit(_)
Lit(cs) == IF cs = <<>> THEN Eps ELSE MkCat(CiChr(Head(cs)), Lit(Tail(cs)))

(***************************************************************************)
(* Nullability and derivative.                                             *)
(***************************************************************************)
RECURSIVE Nullable(_)
Nullable(r) ==
    CASE Tag(r) = "empty" -> FALSE
      [] Tag(r) = "eps"   -> TRUE
      [] Tag(r) = "rng"   -> FALSE
      [] Tag(r) = "cat"   -> Nullable(r[2]) /\ Nullable(r[3])
      [] Tag(r) = "alt"   -> \E x \in r[2] : Nullable(x)
      [] Tag(r) = "star"  -> TRUE

RECURSIVE Deriv(_, _)
Deriv(r, c) ==
    CASE Tag(r) = "empty" -> Empty
      [] Tag(r) = "eps"   -> Empty
      [] Tag(r) = "rng"   -> IF r[2] <= c /\ c <= r[3] THEN Eps ELSE Empty
      [] Tag(r) = "cat"   ->
            LET left == MkCat(Deriv(r[2], c), r[3])
            IN  IF Nullable(r[2]) THEN Alt2(left, Deriv(r[3], c)) ELSE left
      [] Tag(r) = "alt"   -> MkAlt({Deriv(x, c) : x \in r[2]})
      [] Tag(r) = "star"  -> MkCat(Deriv(r[2], c), r)

RECURSIVE DerivWord(_, _)
DerivWord(r, w) ==
    IF w = <<>> \/ r = Empty THEN r ELSE DerivWord(Deriv(r, Head(w)), Tail(w))

Member(r, w) == Nullable(DerivWord(r, w))

(* Some extension of w may still be accepted. *)
Viable(r, w) == DerivWord(r, w) # Empty

(***************************************************************************)
(* Cut points: every lo and hi+1 of a range in r.  Two symbols that lie    *)
(* between the same consecutive cut points are indistinguishable by r and  *)
(* by all of its derivatives.                                              *)
(***************************************************************************)
RECURSIVE Cuts(_)
Cuts(r) ==
    CASE Tag(r) = "empty" -> {}
      [] Tag(r) = "eps"   -> {}
      [] Tag(r) = "rng"   -> {r[2], r[3] + 1}
      [] Tag(r) = "cat"   -> Cuts(r[2]) \cup Cuts(r[3])
      [] Tag(r) = "alt"   -> UNION {Cuts(x) : x \in r[2]}
      [] Tag(r) = "star"  -> Cuts(r[2])
=============================================================================
