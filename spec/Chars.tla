------------------------------- MODULE Chars -------------------------------
(* Code points of the ASCII characters the RFCs name.  Texts are sequences *)
(* of naturals: octets for the URI family, Unicode scalar values for the   *)
(* IRI family (TLC cannot index TLA+ strings).                             *)
EXTENDS Integers, Sequences

cBANG == 33   cHASH == 35   cDOLLAR == 36  cPCT == 37    cAMP == 38
cAPOS == 39   cLPAR == 40   cRPAR == 41    cSTAR == 42   cPLUS == 43
cCOMMA == 44  cMINUS == 45  cDOT == 46     cSLASH == 47  cCOLON == 58
cSEMI == 59   cEQ == 61     cQM == 63      cAT == 64     cLBRA == 91
cRBRA == 93   cUNDER == 95  cTILDE == 126
c0 == 48  c1 == 49  c2 == 50  c3 == 51  c4 == 52  c5 == 53  c9 == 57
cA == 65  cF == 70  cZ == 90  ca == 97  cf == 102 cv == 118 cz == 122

MaxScalar == 1114111          \* 0x10FFFF
SurrLo == 55296               \* 0xD800
SurrHi == 57343               \* 0xDFFF
IsScalar(c) == c >= 0 /\ c <= MaxScalar /\ ~(c >= SurrLo /\ c <= SurrHi)
=============================================================================
