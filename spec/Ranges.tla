------------------------------- MODULE Ranges -------------------------------
(* Byte ranges of components inside the UTF-8 text of a reference (C20).   *)
EXTENDS Parts, PathOps

Utf8Len(c) == IF c < 128 THEN 1 ELSE IF c < 2048 THEN 2 ELSE IF c < 65536 THEN 3 ELSE 4
RECURSIVE ByteLen(_)
ByteLen(w) == IF w = <<>> THEN 0 ELSE Utf8Len(Head(w)) + ByteLen(Tail(w))

NoRange == <<-1, -1>>
(* <<byte offset, byte length>> of the sub-text of w starting after `pos` symbols *)
RangeAt(w, pos, t) == <<ByteLen(Take(w, pos)), ByteLen(t)>>

PartsOff(w) ==
    LET P  == Parts(w)
        s0 == 0
        a0 == (IF P.scheme # NULL THEN Len(P.scheme) + 1 ELSE 0) + 2
        p0 == IF P.authority # NULL THEN a0 + Len(P.authority) ELSE a0 - 2
        q0 == p0 + Len(P.path) + 1
        f0 == (IF P.query # NULL THEN q0 + Len(P.query) ELSE q0 - 1) + 1
    IN  [scheme    |-> IF P.scheme # NULL THEN RangeAt(w, s0, P.scheme) ELSE NoRange,
         authority |-> IF P.authority # NULL THEN RangeAt(w, a0, P.authority) ELSE NoRange,
         path      |-> RangeAt(w, p0, P.path),
         query     |-> IF P.query # NULL THEN RangeAt(w, q0, P.query) ELSE NoRange,
         fragment  |-> IF P.fragment # NULL THEN RangeAt(w, f0, P.fragment) ELSE NoRange]

AuthOff(a) ==
    LET A  == AuthParts(a)
        h0 == IF A.userinfo # NULL THEN Len(A.userinfo) + 1 ELSE 0
        p0 == h0 + Len(A.host) + 1
    IN  [userinfo |-> IF A.userinfo # NULL THEN RangeAt(a, 0, A.userinfo) ELSE NoRange,
         host     |-> RangeAt(a, h0, A.host),
         port     |-> IF A.port # NULL THEN RangeAt(a, p0, A.port) ELSE NoRange]

(* C16: the base of a reference: its text up to and including the last "/" of its *)
(* path, or up to the start of the path when the path contains none.             *)
BaseOf(w) ==
    LET P == Parts(w)
    IN  Recompose(MkParts(P.scheme, P.authority, Directory(P.path), NULL, NULL))

(* The ranges are ordered, disjoint and inside the input. *)
RangesOrdered(w) ==
    LET O  == PartsOff(w)
        rs == <<O.scheme, O.authority, O.path, O.query, O.fragment>>
        present == SelectSeq(rs, LAMBDA r : r # NoRange)
    IN  /\ \A i \in 1..Len(present) : present[i][1] >= 0 /\ present[i][1] + present[i][2] <= ByteLen(w)
        /\ \A i \in 1..(Len(present) - 1) : present[i][1] + present[i][2] <= present[i + 1][1]
=============================================================================
