INIT Init
NEXT Next
INVARIANT Coherent
CHECK_DEADLOCK FALSE
