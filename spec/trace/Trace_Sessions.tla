--------------------------- MODULE Trace_Sessions ---------------------------
(***************************************************************************)
(* Direction B for HANDLES: validation of whole sessions recorded from the *)
(* real code.  A path handle (C10) or authority handle (C11) carries       *)
(* hidden state (its byte window), so the events of one session are not    *)
(* independent: the trace specification carries the abstract state of the  *)
(* handle from event to event.                                             *)
(*                                                                         *)
(* Path sessions.  The abstract value of the path (absoluteness, segment   *)
(* list) is not logged - only the text the handle shows after each call.   *)
(* Where the specification leaves the list open (a spent "." shield is     *)
(* also a segment, "/" reads as no segment or one empty one) the variable  *)
(* Xs holds EVERY list consistent with what was observed so far; a call    *)
(* conforms when at least one of them explains the new view.  A session    *)
(* that stops conforming is reported once and skipped (dead), the next     *)
(* session starts afresh, so one bad step does not hide the rest.          *)
(*                                                                         *)
(* events:  open_path  {fam, kind, scheme, authority, query, fragment, init}*)
(*          call_path  {op, arg, args, view, panic}                        *)
(*          close_path {text}                                              *)
(*          open_auth  {fam, kind, text}    call_auth {op, arg, view, panic}    close_auth {text} *)
(***************************************************************************)
EXTENDS Editor, TLC, Json, IOUtils

Rec == ndJsonDeserialize(IOEnv.TRACE)

VARIABLES l, mode, ctx, ab, Xs, view, text, win, dead
vars == <<l, mode, ctx, ab, Xs, view, text, win, dead>>

NoCtx == StandAlone("iri")

Init == l = 1 /\ mode = "none" /\ ctx = NoCtx /\ ab = FALSE /\ Xs = {} /\ view = <<>>
        /\ text = <<>> /\ win = <<0, 0>> /\ dead = FALSE

PathOpOfEvent(e) == IF e.op \in {"push", "sym_push"} THEN <<e.op, e.arg>>
                    ELSE IF e.op = "sym_append" THEN <<e.op, e.args>> ELSE <<e.op>>

E == Rec[l]
Report(why) == PrintT(ToJson([nonconf |-> l, event |-> E, why |-> why,
                                    expected |-> IF E.ev = "call_path" /\ ~dead
                                                 THEN UNION {AdmissibleStep(ctx, HasLeadDot(view), ab, X2) :
                                                             X2 \in UNION {AltsOf(ab, X, PathOpOfEvent(E), HasLeadDot(view)) : X \in Xs}}
                                                 ELSE {},
                                    before |-> view]))

OpenPath ==
    /\ E.ev = "open_path"
    /\ ctx' = [fam |-> E.fam, kind |-> E.kind, scheme |-> E.scheme, authority |-> E.authority,
               query |-> E.query, fragment |-> E.fragment]
    /\ ab' = AbsOf(ctx', E.init) /\ Xs' = {Segs(E.init)} /\ view' = E.init
    /\ mode' = "path" /\ dead' = FALSE /\ UNCHANGED <<text, win>>

CallPath ==
    /\ E.ev = "call_path"
    /\ IF dead THEN UNCHANGED <<mode, ctx, ab, Xs, view, text, win, dead>>
       ELSE LET op   == PathOpOfEvent(E)
                cand == UNION {AltsOf(ab, X, op, HasLeadDot(view)) : X \in Xs}
                vc   == ValidIn(ctx, E.view)
                good == {X2 \in cand : AdmitsView(ctx, HasLeadDot(view), ab, X2, E.view, vc)}
            IN  IF E.panic \/ good = {}
                THEN /\ Report(IF E.panic THEN "panic" ELSE "unexpected")
                     /\ dead' = TRUE /\ UNCHANGED <<mode, ctx, ab, Xs, view, text, win>>
                ELSE /\ Xs' = good /\ view' = E.view
                     /\ UNCHANGED <<mode, ctx, ab, text, win, dead>>

ClosePath ==
    /\ E.ev = "close_path"
    /\ (~(dead \/ E.text = Embed(ctx, view)) => Report("buffer_differs_from_view"))
    /\ mode' = "none" /\ UNCHANGED <<ctx, ab, Xs, view, text, win, dead>>

OpenAuth ==
    /\ E.ev = "open_auth"
    /\ ctx' = [NoCtx EXCEPT !.fam = E.fam, !.kind = E.kind]
    /\ text' = E.text /\ win' = AuthWindow(E.text) /\ mode' = "auth" /\ dead' = FALSE
    /\ UNCHANGED <<ab, Xs, view>>

CallAuth ==
    /\ E.ev = "call_auth"
    /\ IF dead THEN UNCHANGED <<mode, ctx, ab, Xs, view, text, win, dead>>
       ELSE LET r == AuthStep(text, win, <<E.op, E.arg>>)
            IN  IF E.panic \/ E.view # WinText(r.text, r.win)
                THEN /\ Report(IF E.panic THEN "panic" ELSE "unexpected")
                     /\ dead' = TRUE /\ UNCHANGED <<mode, ctx, ab, Xs, view, text, win>>
                ELSE /\ text' = r.text /\ win' = r.win
                     /\ UNCHANGED <<mode, ctx, ab, Xs, view, dead>>

CloseAuth ==
    /\ E.ev = "close_auth"
    /\ (~(dead \/ E.text = text) => Report("buffer_differs_from_expected_text"))
    /\ mode' = "none" /\ UNCHANGED <<ctx, ab, Xs, view, text, win, dead>>

Next == /\ l <= Len(Rec)
        /\ (OpenPath \/ CallPath \/ ClosePath \/ OpenAuth \/ CallAuth \/ CloseAuth)
        /\ l' = l + 1

(* window coherence of the specified handle, checked on every state of every session *)
Coherent == (mode = "auth" /\ ~dead) =>
               /\ WinText(text, win) = Parts(text).authority
               /\ InLang(RefType(ctx.fam, ctx.kind), text)
=============================================================================
