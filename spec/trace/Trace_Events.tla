---------------------------- MODULE Trace_Events ----------------------------
(***************************************************************************)
(* Direction B: validation of events recorded from the REAL code against   *)
(* the specification.  Each line of the ndjson file named by environment   *)
(* variable TRACE is one call of the library with its arguments and what   *)
(* it returned; Conforms(e) states, with the specification's operators,    *)
(* what the properties demand of that call.                                *)
(*                                                                         *)
(* The events are independent of one another, so the file is cut in K      *)
(* chains that TLC's workers walk concurrently.  A non-conforming event    *)
(* does not stop the run: it is printed (NONCONF) and the walk continues,  *)
(* so every bad event of the file is reported in one pass; the driver also *)
(* checks that every line was consumed (number of states).                 *)
(***************************************************************************)
EXTENDS Suffix, Editor, Pct, TLC, Json, IOUtils

Rec == ndJsonDeserialize(IOEnv.TRACE)
N == Len(Rec)
K == 16
Lo(c) == ((c - 1) * N) \div K + 1
Hi(c) == (c * N) \div K

VARIABLES c, l
vars == <<c, l>>

FamOf(e) == e.fam

(* ---- relative_to (C15) ---- *)
RelConforms(e) ==
    /\ e.panic = FALSE
    /\ RelOk(e.fam, e.a, e.b, e.r)
    /\ e.a_after = e.a /\ e.b_after = e.b

(* ---- one setter call on a buffer scheme "://" authority path "?" query "#" fragment whose     *)
(* ---- components have the lengths e.lens (each one repeated letter): component e.k takes the  *)
(* ---- length e.new, every other one keeps its length and its letters, the text is their sum   *)
(* ---- plus the five delimiters and re-parses (C05, C04)                                       *)
BigEditConforms(e) ==
    LET want == [i \in 1..5 |-> IF i = e.k + 1 THEN e.new ELSE e.lens[i]]
    IN  /\ e.panic = FALSE
        /\ e.after = want
        /\ e.total = want[1] + 3 + want[2] + want[3] + 1 + want[4] + 1 + want[5]
        /\ e.valid /\ e.fills

(* ---- "s:" (or nothing) followed by n slashes (C02): no authority below two slashes, then an  *)
(* ---- empty authority and n - 2 bytes of path                                                  *)
SlashesConforms(e) ==
    LET sl == IF e.scheme THEN 1 ELSE -1
        al == IF e.n >= 2 THEN 0 ELSE -1
        pl == IF e.n >= 2 THEN e.n - 2 ELSE e.n
    IN  /\ e.panic = FALSE
        /\ e.scheme_len = sl /\ e.parts_scheme_len = sl
        /\ e.authority_len = al /\ e.parts_authority_len = al
        /\ e.path_len = pl /\ e.parts_path_len = pl
        /\ e.segments = (IF pl <= 1 THEN 0 ELSE pl)      \* Segs("/") = <<>>, Segs("//") = <<"", "">> (MC_Unit)

(* ---- resolution with one segment of n times "a" (C06):                                      *)
(* ----   own:     t:/x/../<big>/./z  against s://h/p/q   gives  t:/<big>/z                    *)
(* ----   merge:   ../<big>/./z       against s://h/p/q   gives  s://h/<big>/z                 *)
(* ----   basedir: ./z                against s://h/<big>/q  gives  s://h/<big>/z              *)
(* ---- (MC_Unit checks the three equations with ResolveStrict for a short <big>)              *)
BigResolveConforms(e) ==
    LET pre == IF e.case = "own" THEN <<116, 58, 47>> ELSE <<115, 58, 47, 47, 104, 47>>
        as(k) == [i \in 1..k |-> 97]
    IN  /\ e.panic = FALSE
        /\ e.len = Len(pre) + e.n + 2
        /\ e.count_a = e.n
        /\ e.head = pre \o as(8 - Len(pre))
        /\ e.tail = as(6) \o <<47, 122>>

(* ---- length sweep beyond what TLC takes apart (C02, C03, C20): the text is                 *)
(* ----   scheme "://" userinfo "@" host ":" port "/" seg1 "/" seg2 "?" query "#" fragment    *)
(* ---- with lengths 1 1 1 1 1 3 1 1 except that component number e.kind (0..7) has length    *)
(* ---- e.l; every accessor must return exactly its range <<offset, length>> of the text      *)
SweepLen(e, k, d) == IF e.kind = k THEN e.l ELSE d
SweepBigConforms(e) ==
    LET ls == SweepLen(e, 0, 1)  lu == SweepLen(e, 1, 1)  lh == SweepLen(e, 2, 1)  lp == SweepLen(e, 3, 1)
        l1 == SweepLen(e, 4, 1)  l2 == SweepLen(e, 5, 3)  lq == SweepLen(e, 6, 1)  lf == SweepLen(e, 7, 1)
        ao == ls + 3                      \* authority offset
        al == lu + 1 + lh + 1 + lp
        po == ao + al
        pl == 1 + l1 + 1 + l2
        qo == po + pl + 1
        fo == qo + lq + 1
    IN  /\ e.panic = FALSE /\ e.ok
        /\ e.r.scheme = <<0, ls>> /\ e.r.authority = <<ao, al>> /\ e.r.path = <<po, pl>>
        /\ e.r.query = <<qo, lq>> /\ e.r.fragment = <<fo, lf>>
        /\ e.r.userinfo = <<ao, lu>> /\ e.r.host = <<ao + lu + 1, lh>> /\ e.r.port = <<ao + lu + 1 + lh + 1, lp>>
        /\ e.r.last = <<po + 1 + l1 + 1, l2>>

(* the last segment of "data:text/plain," followed by n copies of "%C3%A9" is "plain," and the *)
(* escapes: 2n + 6 octets, n + 6 characters (C19)                                              *)
BigPctConforms(e) ==
    /\ e.panic = FALSE
    /\ e.resolved_unchanged
    /\ e.bytes = 2 * e.n + 6 /\ e.direct_bytes = e.bytes
    /\ e.chars = e.n + 6 /\ e.len = e.chars /\ e.decoded = e.chars

(* ---- suffix (C16) ---- *)
SuffixConforms(e) ==
    /\ e.panic = FALSE
    /\ IF e.what = "path"
       THEN /\ e.some = PathHasSuffix(e.v, e.p)
            /\ e.some => e.suffix \in AdmissibleN(StandAlone(e.fam), <<>>, FALSE, PathSuffixSegs(e.v, e.p))
       ELSE /\ e.some = RefHasSuffix(e.v, e.p)
            /\ e.some => /\ e.suffix \in AdmissibleN(StandAlone(e.fam), <<>>, FALSE,
                                                     PathSuffixSegs(Parts(e.v).path, Parts(e.p).path))
                         /\ e.query = Parts(e.v).query /\ e.fragment = Parts(e.v).fragment

(* ---- one mutating call on an owned buffer, judged from the implementation's own *)
(* ---- previous text (C04, C05, C06, C10, C11)                                    *)
EditConforms(e) ==
    /\ e.panic = FALSE
    /\ InLang(EditType(e.fam, IF e.op = "resolve" THEN "full" ELSE e.kind), e.post)
    /\ e.post \in EditApply(e.fam, e.kind, e.pre, [op |-> e.op, arg |-> e.arg])

(* ---- a buffer obtained by conversion, default() or from_scheme holds exactly the text the  *)
(* ---- route was given (C04 "however obtained", C13); "pre" is that text: the parsed one,    *)
(* ---- <<>> for default(), scheme \o ":" for from_scheme                                      *)
OriginConforms(e) ==
    /\ e.panic = FALSE
    /\ e.text = e.pre
    /\ InLang(RefType(e.fam, e.kind), e.text)
    /\ e.how = "default" => e.text = <<>>
    /\ e.how = "from_scheme" => /\ Len(e.text) > 0 /\ e.text[Len(e.text)] = 58
                                 /\ InLang("Scheme", SubSeq(e.text, 1, Len(e.text) - 1))

(* ---- construction: verdict and components of random texts (C01, C02) ---- *)
ParseConforms(e) ==
    /\ e.panic = FALSE
    /\ e.ok = InLang(e.ty, e.w)
    /\ e.ok => e.p = Parts(e.w)
(* ---- authorities drawn from character classes (C03): verdict, and the three ways of  *)
(* ---- reading user info, host and port (accessors, all-at-once, inside a reference)   *)
AuthConforms(e) ==
    LET ty == IF e.fam = "uri" THEN "UAuthority" ELSE "IAuthority"
    IN  /\ e.panic = FALSE
        /\ e.ok = InLang(ty, e.w)
        /\ e.ok => /\ e.v.acc = AuthParts(e.w)
                    /\ e.v.parts = AuthParts(e.w)
                    /\ e.v.emb = AuthParts(e.w)
(* ---- construction from bytes: the UTF-8 gate (C01, C14) ---- *)
ParseBytesConforms(e) ==
    /\ e.panic = FALSE
    /\ e.ok = (WellFormedUtf8(e.bytes) /\ InLang(e.ty, Utf8Decode(e.bytes)))
    /\ e.kept          \* accepted text / returned payload is the input, byte for byte

(* ---- very large inputs, judged structurally (C09, C12, C20).  A path made of n equal *)
(* ---- dot-free segments is a fixed point of normalisation (MC_Paths checks that      *)
(* ---- theorem on the bounded model: NoDotFixedPoint); borrowed access allocates      *)
(* ---- nothing; the components of "s://h" path "?q#f" tile the input.                 *)
BigPathConforms(e) ==
    /\ e.panic = FALSE
    /\ e.copy_unchanged /\ e.inplace_unchanged
    /\ e.normalized_len = e.n /\ e.count = e.n /\ e.count_back = e.n
    /\ e.allocs = 0
BigRefConforms(e) ==
    /\ e.panic = FALSE
    /\ e.allocs = 0
    /\ e.scheme = <<0, 1>> /\ e.authority = <<4, 1>> /\ e.path = <<5, e.plen>> /\ e.parts_path = e.path
    /\ e.query = <<5 + e.plen + 1, 1>> /\ e.fragment = <<5 + e.plen + 3, 1>>
    /\ e.len = 5 + e.plen + 4
    /\ e.base = <<0, 5 + e.plen - e.seglen>>            \* up to and including the last "/" of the path

Conforms(e) ==
    CASE e.ev = "rel"    -> RelConforms(e)
      [] e.ev = "big_path" -> BigPathConforms(e)
      [] e.ev = "big_ref"  -> BigRefConforms(e)
      [] e.ev = "big_pct"  -> BigPctConforms(e)
      [] e.ev = "big_edit" -> BigEditConforms(e)
      [] e.ev = "slashes"  -> SlashesConforms(e)
      [] e.ev = "big_resolve" -> BigResolveConforms(e)
      [] e.ev = "sweep_big" -> SweepBigConforms(e)
      [] e.ev = "parse"  -> ParseConforms(e)
      [] e.ev = "parse_bytes" -> ParseBytesConforms(e)
      [] e.ev = "auth"   -> AuthConforms(e)
      [] e.ev = "edit"   -> EditConforms(e)
      [] e.ev = "origin" -> OriginConforms(e)
      [] e.ev = "suffix" -> SuffixConforms(e)
      [] OTHER -> FALSE

(* what kind of non-conformance: the call panicked / left an ill-formed text / gave an *)
(* unexpected (but well-formed) result                                                  *)
Why(e) ==
    IF e.panic THEN "panic"
    ELSE IF e.ev = "auth" /\ e.ok # InLang(IF e.fam = "uri" THEN "UAuthority" ELSE "IAuthority", e.w) THEN "verdict"
    ELSE IF e.ev = "edit" /\ ~InLang(EditType(e.fam, IF e.op = "resolve" THEN "full" ELSE e.kind), e.post) THEN "invalid"
    ELSE "unexpected"

(* what the specification admits, for the report *)
Expected(e) == IF e.ev = "edit" THEN EditApply(e.fam, e.kind, e.pre, [op |-> e.op, arg |-> e.arg]) ELSE {}

Init == c = 0 /\ l = 0
Pick == c = 0 /\ c' \in 1..K /\ l' = Lo(c')
Consume == /\ c # 0 /\ l <= Hi(c)
        /\ (~Conforms(Rec[l]) => PrintT(ToJson([nonconf |-> l, event |-> Rec[l], why |-> Why(Rec[l]), expected |-> Expected(Rec[l])])))
        /\ l' = l + 1 /\ c' = c
Next == Pick \/ Consume
=============================================================================
