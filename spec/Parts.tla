------------------------------- MODULE Parts -------------------------------
(***************************************************************************)
(* RFC 3986 section 3 / Appendix B: decomposition of a (valid) reference   *)
(* into scheme, authority, path, query, fragment by first-delimiter rules; *)
(* section 5.3 recomposition; section 3.2 decomposition of an authority.   *)
(* Absent components are NULL, present-but-empty ones are <<>>.            *)
(***************************************************************************)
EXTENDS TextOps

Parts(w) ==
    LET hashI == FirstIdx(w, {cHASH})
        frag  == IF hashI <= Len(w) THEN Drop(w, hashI) ELSE NULL
        w1    == Take(w, hashI - 1)
        qmI   == FirstIdx(w1, {cQM})
        query == IF qmI <= Len(w1) THEN Drop(w1, qmI) ELSE NULL
        w2    == Take(w1, qmI - 1)
        colI  == FirstIdx(w2, {cCOLON, cSLASH})
        hasS  == colI > 1 /\ colI <= Len(w2) /\ w2[colI] = cCOLON
        w3    == IF hasS THEN Drop(w2, colI) ELSE w2
        hasA  == StartsWith(w3, <<cSLASH, cSLASH>>)
        rest  == Drop(w3, 2)
        slI   == FirstIdx(rest, {cSLASH})
    IN  [scheme    |-> IF hasS THEN Take(w2, colI - 1) ELSE NULL,
         authority |-> IF hasA THEN Take(rest, slI - 1) ELSE NULL,
         path      |-> IF hasA THEN Drop(rest, slI - 1) ELSE w3,
         query     |-> query,
         fragment  |-> frag]

(* RFC 3986 section 5.3 *)
Recompose(p) ==
       (IF p.scheme # NULL THEN p.scheme \o <<cCOLON>> ELSE <<>>)
    \o (IF p.authority # NULL THEN <<cSLASH, cSLASH>> \o p.authority ELSE <<>>)
    \o p.path
    \o (IF p.query # NULL THEN <<cQM>> \o p.query ELSE <<>>)
    \o (IF p.fragment # NULL THEN <<cHASH>> \o p.fragment ELSE <<>>)

MkParts(s, a, p, q, f) == [scheme |-> s, authority |-> a, path |-> p, query |-> q, fragment |-> f]

(* RFC 3986 section 3.2: authority = [ userinfo "@" ] host [ ":" port ].  A valid *)
(* authority contains at most one "@" (neither userinfo, host nor port admit it). *)
AuthParts(a) ==
    LET atI   == FirstIdx(a, {cAT})
        hasU  == atI <= Len(a)
        hp    == IF hasU THEN Drop(a, atI) ELSE a
        hEnd  == IF hp # <<>> /\ hp[1] = cLBRA
                 THEN FirstIdx(hp, {cRBRA})                 \* IP-literal: up to and including "]"
                 ELSE FirstIdx(hp, {cCOLON}) - 1
        hEnd2 == IF hEnd > Len(hp) THEN Len(hp) ELSE hEnd
        after == Drop(hp, hEnd2)
    IN  [userinfo |-> IF hasU THEN Take(a, atI - 1) ELSE NULL,
         host     |-> Take(hp, hEnd2),
         port     |-> IF after # <<>> /\ after[1] = cCOLON THEN Tail(after) ELSE NULL]

RecomposeAuth(p) ==
       (IF p.userinfo # NULL THEN p.userinfo \o <<cAT>> ELSE <<>>)
    \o p.host
    \o (IF p.port # NULL THEN <<cCOLON>> \o p.port ELSE <<>>)
=============================================================================
