------------------------------ MODULE PathOps ------------------------------
(***************************************************************************)
(* Paths as segment lists (C12), dot-segment normalisation (C09): the      *)
(* stack walk of the property statement, the literal algorithm of RFC 3986 *)
(* section 5.2.4, and the renderings.                                      *)
(***************************************************************************)
EXTENDS TextOps, SequencesExt

DOT    == <<cDOT>>
DOTDOT == <<cDOT, cDOT>>
IsDotSeg(s) == s = DOT \/ s = DOTDOT

IsAbs(p) == p # <<>> /\ p[1] = cSLASH

(* The "/"-separated pieces of the text after the optional leading "/";    *)
(* the empty remainder has ZERO segments ("" and "/" have none, "//" two). *)
Segs(p) ==
    LET rest == IF IsAbs(p) THEN Tail(p) ELSE p
    IN  IF rest = <<>> THEN <<>> ELSE Split(rest, cSLASH)

Join(abs, segs) == (IF abs THEN <<cSLASH>> ELSE <<>>) \o JoinWith(segs, cSLASH)

PathIsEmpty(p) == Segs(p) = <<>>
SegCount(p) == Len(Segs(p))
FirstSeg(p) == IF Segs(p) = <<>> THEN NULL ELSE Segs(p)[1]
LastSeg(p) == IF Segs(p) = <<>> THEN NULL ELSE LastOf(Segs(p))
(* last segment unless it is empty *)
FileName(p) == IF Segs(p) = <<>> \/ LastOf(Segs(p)) = <<>> THEN NULL ELSE LastOf(Segs(p))
(* the path without its file name: up to and including the last "/" *)
Directory(p) == Take(p, LastIdx(p, {cSLASH}))

(***************************************************************************)
(* C09: scan left to right, drop ".", ".." removes the previous segment -  *)
(* or is kept when the path is relative and nothing is left to remove      *)
(* (Errata 4547), or is dropped at the root of an absolute path.           *)
(***************************************************************************)
RECURSIVE Walk(_, _, _)
Walk(segs, stack, rel) ==
    IF segs = <<>> THEN stack
    ELSE LET s == Head(segs)
             nothingLeft == stack = <<>> \/ LastOf(stack) = DOTDOT
         IN  IF s = DOT THEN Walk(Tail(segs), stack, rel)
             ELSE IF s = DOTDOT THEN
                    IF nothingLeft
                    THEN (IF rel THEN Walk(Tail(segs), Append(stack, DOTDOT), rel)
                                 ELSE Walk(Tail(segs), stack, rel))
                    ELSE Walk(Tail(segs), FrontOf(stack), rel)
             ELSE Walk(Tail(segs), Append(stack, s), rel)

NormSegs(p) == Walk(Segs(p), <<>>, ~IsAbs(p))

EndsWithDotSeg(p) == Segs(p) # <<>> /\ IsDotSeg(LastOf(Segs(p)))

(* The segment list of the normalized COPY: a final dot segment leaves a   *)
(* trailing "/" (an empty last segment), unless nothing is left at all.    *)
NormCopySegs(p) ==
    IF EndsWithDotSeg(p) /\ NormSegs(p) # <<>> THEN Append(NormSegs(p), <<>>) ELSE NormSegs(p)

Normalized(p) == Join(IsAbs(p), NormCopySegs(p))

(***************************************************************************)
(* RFC 3986 section 5.2.4, literally: rules A-E on (input, output).        *)
(***************************************************************************)
SLASH == <<cSLASH>>
(* remove the last segment and its preceding "/" (if any) from the output *)
DropLastSeg(out) == Take(out, LastIdx(out, {cSLASH}) - 1)
                      \* no "/" at all: LastIdx = 0, Take(out,-1) = <<>>

RECURSIVE Rfc524Loop(_, _)
Rfc524Loop(in, out) ==
    IF in = <<>> THEN out
    \* A
    ELSE IF StartsWith(in, <<cDOT, cDOT, cSLASH>>) THEN Rfc524Loop(Drop(in, 3), out)
    ELSE IF StartsWith(in, <<cDOT, cSLASH>>) THEN Rfc524Loop(Drop(in, 2), out)
    \* B
    ELSE IF StartsWith(in, <<cSLASH, cDOT, cSLASH>>) THEN Rfc524Loop(Drop(in, 2), out)
    ELSE IF in = <<cSLASH, cDOT>> THEN Rfc524Loop(SLASH, out)
    \* C
    ELSE IF StartsWith(in, <<cSLASH, cDOT, cDOT, cSLASH>>) THEN Rfc524Loop(Drop(in, 3), DropLastSeg(out))
    ELSE IF in = <<cSLASH, cDOT, cDOT>> THEN Rfc524Loop(SLASH, DropLastSeg(out))
    \* D
    ELSE IF in = DOT \/ in = DOTDOT THEN Rfc524Loop(<<>>, out)
    \* E: move the first path segment, including the initial "/" (if any) and up to,
    \*    but not including, the next "/"
    ELSE LET body == IF in[1] = cSLASH THEN Tail(in) ELSE in
             n    == FirstIdx(body, {cSLASH}) - 1
             k    == IF in[1] = cSLASH THEN n + 1 ELSE n
         IN  Rfc524Loop(Drop(in, k), out \o Take(in, k))

Rfc524(p) == Rfc524Loop(p, <<>>)

(***************************************************************************)
(* Renderings of a demanded (absoluteness, segment list) as a text.        *)
(* A produced path is judged against the SET of admissible texts: the      *)
(* demanded list rendered with or without one leading "." segment, which   *)
(* must read back as the demanded list, be valid where it stands, and      *)
(* carry a "." that the previous text had not only as a shield in front of *)
(* a first segment that is empty or contains ":" (DESIGN.md 3.3).          *)
(***************************************************************************)
DropLeadDot(X) == IF X # <<>> /\ X[1] = DOT THEN Tail(X) ELSE X
HasLeadDot(p) == Segs(p) # <<>> /\ Segs(p)[1] = DOT
NeedsShield(Y) == Y # <<>> /\ (Y[1] = <<>> \/ Has(Y[1], cCOLON))

PlainOf(abs, X)  == Join(abs, DropLeadDot(X))
DottedOf(abs, X) == Join(abs, <<DOT>> \o DropLeadDot(X))

(* c has the demanded absoluteness and reads back as the demanded list *)
ReadsAs(c, abs, X) == IsAbs(c) = abs /\ DropLeadDot(Segs(c)) = DropLeadDot(X)
=============================================================================
