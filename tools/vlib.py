"""Shared machinery of the ./check driver: building the harness from /repo's working tree,
running TLC models, piping TLC-computed cases through the real code, trace validation,
known-finding classification, evidence files, verdict lines.

Exit codes of ./check:  0 = property held on everything explored (known findings are listed),
1 = at least one VIOLATION line, 2 = tool error / time-out (never reported as a violation).
"""
import hashlib
import json
import os
import re
import shutil
import subprocess
import sys
import time

ROOT = os.path.dirname(os.path.dirname(os.path.abspath(__file__)))
REPO = os.environ.get("VERIF_REPO", "/repo")
WORK = os.path.join(ROOT, "work")
SPEC = os.path.join(ROOT, "spec")
GEN = os.path.join(SPEC, "gen")
HARNESS = os.path.join(ROOT, "harness")
# VERIF_EVIDENCE: where the evidence of runs against something else than /repo goes (seeded changes)
EVIDENCE = os.environ.get("VERIF_EVIDENCE", os.path.join(ROOT, "evidence"))
REPLAYS = os.path.join(EVIDENCE, "replays")
BIN = os.path.join(HARNESS, "target", "release")
BIN_PLAIN = os.path.join(HARNESS, "target", "plain")      # profile without debug assertions / overflow checks
JAR = "/opt/veriftools/tla/tla2tools.jar"
DEPS = "/opt/veriftools/tla/CommunityModules-deps.jar"


class ToolError(Exception):
    pass


def log(msg):
    print("[check] " + msg, flush=True)


def seed():
    try:
        return int(os.environ.get("VERIF_SEED", "1"))
    except ValueError:
        return 1


def sh(cmd, cwd=None, env=None, timeout=None, stdout=None, stderr=None):
    e = dict(os.environ)
    if env:
        e.update(env)
    try:
        return subprocess.run(cmd, cwd=cwd, env=e, timeout=timeout, stdout=stdout, stderr=stderr)
    except subprocess.TimeoutExpired:
        raise ToolError("time-out after %ss: %s" % (timeout, " ".join(map(str, cmd))[:300]))


# --------------------------------------------------------------------------------------
# Build
# --------------------------------------------------------------------------------------

def grammar_fingerprint():
    """SHA-256 over the files the grammar proc-macro reads but cargo does not track."""
    h = hashlib.sha256()
    core = os.path.join(REPO, "crates", "core")
    paths = []
    for root, _, files in os.walk(core):
        if os.sep + "target" in root:
            continue
        for f in files:
            if f.endswith(".abnf") or f.endswith(".cbor"):
                paths.append(os.path.join(root, f))
    for p in sorted(paths):
        h.update(p.encode())
        with open(p, "rb") as fh:
            h.update(fh.read())
    return h.hexdigest()


def ensure_build():
    """Rebuild the harness (and therefore iref) from /repo's current working tree."""
    os.makedirs(WORK, exist_ok=True)
    # the harness depends on the library through the link work/repo -> /repo (VERIF_REPO: a scratch
    # worktree, used to try seeded changes without touching /repo)
    link = os.path.join(WORK, "repo")
    if not os.path.islink(link) or os.readlink(link) != REPO:
        if os.path.lexists(link):
            os.remove(link)
        os.symlink(REPO, link)
    lock = os.path.join(HARNESS, "Cargo.lock")
    if not os.path.exists(lock):
        shutil.copy(os.path.join(REPO, "Cargo.lock"), lock)
    stamp = os.path.join(HARNESS, "target", ".grammar-fingerprint")
    fp = grammar_fingerprint()
    old = open(stamp).read().strip() if os.path.exists(stamp) else ""
    env = {"CARGO_NET_OFFLINE": "true"}
    # cargo decides freshness by modification times: a tree whose files are OLDER than the last build (the
    # link now points at another tree, a change was reverted with its old time stamps) would be taken for
    # up to date.  The library is rebuilt whenever the tree (path, HEAD, uncommitted changes) is not the
    # one that was built last.
    tstamp = os.path.join(HARNESS, "target", ".tree-fingerprint")
    tfp = REPO + " " + repo_fingerprint()
    told = open(tstamp).read().strip() if os.path.exists(tstamp) else ""
    if (old != fp or told != tfp) and os.path.isdir(os.path.join(HARNESS, "target")):
        sh(["cargo", "clean", "--profile", "plain", "--offline", "-p", "iref-core", "-p", "iref", "-p", "iref-macros"],
           cwd=HARNESS, env=env, stdout=subprocess.DEVNULL, stderr=subprocess.DEVNULL)
    if (old != fp or told != tfp) and os.path.isdir(os.path.join(HARNESS, "target")):
        # cargo does not see grammar.abnf / *.aut.cbor: force the proc-macro to run again
        sh(["cargo", "clean", "--release", "--offline", "-p", "iref-core", "-p", "iref", "-p", "iref-macros"],
           cwd=HARNESS, env=env, stdout=subprocess.DEVNULL, stderr=subprocess.DEVNULL)
    t0 = time.time()
    out = os.path.join(WORK, "cargo-build.log")
    with open(out, "w") as fh:
        r = sh(["cargo", "build", "--release", "--offline"], cwd=HARNESS, env=env, stdout=fh,
               stderr=subprocess.STDOUT, timeout=1800)
    if r.returncode != 0:
        tail = open(out).read()[-4000:]
        raise ToolError("cargo build of the harness against %s failed:\n%s" % (REPO, tail))
    with open(out, "a") as fh:
        r = sh(["cargo", "build", "--profile", "plain", "--offline", "--bin", "replay"], cwd=HARNESS, env=env, stdout=fh,
               stderr=subprocess.STDOUT, timeout=1800)
    if r.returncode != 0:
        raise ToolError("cargo build (profile plain) of the harness against %s failed:\n%s" % (REPO, open(out).read()[-4000:]))
    # the build may have regenerated stale automata caches: fingerprint what is there *now*
    os.makedirs(os.path.dirname(stamp), exist_ok=True)
    with open(stamp, "w") as fh:
        fh.write(grammar_fingerprint())
    with open(tstamp, "w") as fh:
        fh.write(tfp)
    log("harness built from %s in %.1fs" % (REPO, time.time() - t0))


def gen_dfa():
    """Import the cached DFAs (as they are after the build) into spec/gen/Dfa.tla."""
    os.makedirs(GEN, exist_ok=True)
    r = sh([sys.executable, os.path.join(ROOT, "tools", "aut2tla.py"), REPO, os.path.join(GEN, "Dfa.tla")],
           stdout=subprocess.PIPE, stderr=subprocess.STDOUT)
    if r.returncode != 0:
        raise ToolError("aut2tla failed: " + r.stdout.decode(errors="replace")[-2000:])
    return json.load(open(os.path.join(GEN, "Dfa.meta.json")))


# --------------------------------------------------------------------------------------
# TLC
# --------------------------------------------------------------------------------------

class TlcResult:
    def __init__(self):
        self.generated = 0
        self.distinct = 0
        self.depth = 0
        self.cases = 0
        self.cases_path = None
        self.log_path = None
        self.error = None          # text of the first TLC error (invariant violation, ...)
        self.error_kind = None     # "invariant" | "assert" | "other"
        self.trace = []            # list of state texts when an error trace was printed
        self.coverage = {}         # action -> (distinct, taken)
        self.wall = 0.0
        self.name = ""


STATE_RE = re.compile(r"^(\d+) states generated, (\d+) distinct states found")
DEPTH_RE = re.compile(r"^The depth of the complete state graph search is (\d+)")
COV_RE = re.compile(r"^<(\w+) line \d+, col \d+ to line \d+, col \d+ of module (\w+)>: (\d+):(\d+)")


TIER = {"name": "quick"}


def run_tlc(model, cfg=None, name=None, workers=8, timeout=None, simulate=None, depth=None,
            env_extra=None, xmx=None, coverage=True, deque=False):
    """Run TLC on spec/<model>.tla with spec/<cfg>; split the output into case lines
    (JSON objects printed with PrintT(ToJson(..))) and the log."""
    thorough = TIER["name"] == "thorough"
    if xmx is None:
        xmx = "24g" if thorough else "8g"
    if timeout is None:
        timeout = 6 * 3600 if thorough else 3600
    if thorough and workers == 8:
        workers = 12
    name = name or os.path.basename(model)
    tla = os.path.join(SPEC, model + ".tla")
    cfgp = os.path.join(SPEC, (cfg or model) + ".cfg")
    if not os.path.exists(tla) or not os.path.exists(cfgp):
        raise ToolError("missing model %s / %s" % (tla, cfgp))
    wdir = os.path.join(WORK, "tlc", name)
    shutil.rmtree(wdir, ignore_errors=True)
    os.makedirs(wdir)
    raw = os.path.join(wdir, "tlc.out")
    jopts = "-Xss1g -Xmx%s -Djava.io.tmpdir=%s -DTLA-Library=%s" % (
        xmx, wdir, ":".join([SPEC, GEN, os.path.join(SPEC, "mc"), os.path.join(SPEC, "trace")]))
    if deque:
        jopts += " -Dtlc2.tool.queue.IStateQueue=StateDeque"
    cmd = ["java", "-XX:+UseParallelGC", "-cp", JAR + ":" + DEPS, "tlc2.TLC",
           "-workers", str(workers), "-metadir", os.path.join(wdir, "meta"), "-cleanup",
           "-noGenerateSpecTE", "-config", cfgp]
    if coverage and not simulate:
        cmd += ["-coverage", "1"]
    if simulate:
        cmd += ["-simulate", "num=%d" % simulate, "-seed", str(seed())]
        if depth:
            cmd += ["-depth", str(depth)]
    cmd.append(tla)
    env = {"JAVA_TOOL_OPTIONS": jopts}
    if env_extra:
        env.update(env_extra)
    t0 = time.time()
    with open(raw, "w") as fh:
        r = sh(cmd, cwd=wdir, env=env, stdout=fh, stderr=subprocess.STDOUT, timeout=timeout)
    res = TlcResult()
    res.name = name
    res.wall = time.time() - t0
    res.cases_path = os.path.join(wdir, "cases.jsonl")
    res.log_path = os.path.join(wdir, "tlc.log")
    in_error = False
    err_lines = []
    cur_state = None
    with open(raw, errors="replace") as fh, open(res.cases_path, "w") as cf, open(res.log_path, "w") as lf:
        for line in fh:
            if line.startswith('"{'):
                try:
                    cf.write(json.loads(line) + "\n")
                    res.cases += 1
                    continue
                except ValueError:
                    pass
            lf.write(line)
            m = STATE_RE.match(line)
            if m:
                res.generated, res.distinct = int(m.group(1)), int(m.group(2))
            m = DEPTH_RE.match(line)
            if m:
                res.depth = int(m.group(1))
            m = COV_RE.match(line)
            if m:
                res.coverage[m.group(1)] = (int(m.group(3)), int(m.group(4)))
            if line.startswith("Error:"):
                if res.error is None:
                    in_error = True
                    err_lines = [line.rstrip()]
                    if "Invariant" in line and "violated" in line:
                        res.error_kind = "invariant"
                    elif "Action property" in line or "action property" in line:
                        res.error_kind = "invariant"
                    elif "Assert" in line or "assert" in line:
                        res.error_kind = "assert"
                    else:
                        res.error_kind = res.error_kind or "other"
                continue
            if line.startswith("State ") and ":" in line:
                cur_state = []
                res.trace.append(cur_state)
                in_error = False
                continue
            if cur_state is not None:
                if line.strip() == "" or STATE_RE.match(line):
                    cur_state = None
                else:
                    cur_state.append(line.rstrip())
                continue
            if in_error:
                if line.strip() == "" and len(err_lines) > 1:
                    in_error = False
                else:
                    err_lines.append(line.rstrip())
    if err_lines:
        res.error = "\n".join(err_lines[:40])
    os.remove(raw)
    # TLC exit codes: 0 ok, 10-14 violations (safety, liveness, deadlock ...), >=150 errors
    res.exit = r.returncode
    if r.returncode != 0 and res.error is None:
        tail = open(res.log_path).read()[-3000:]
        raise ToolError("TLC failed on %s (exit %d):\n%s" % (name, r.returncode, tail))
    if r.returncode != 0 and res.error_kind == "other":
        raise ToolError("TLC error on %s (exit %d):\n%s" % (name, r.returncode, res.error))
    log("TLC %-28s %9d generated %9d distinct %8d cases  %.1fs%s" % (
        name, res.generated, res.distinct, res.cases, res.wall, "  ERROR: " + res.error.splitlines()[0] if res.error else ""))
    return res


# --------------------------------------------------------------------------------------
# Harness
# --------------------------------------------------------------------------------------

class ReplayResult:
    def __init__(self):
        self.fails = []        # [{"i", "k", "case", "fails": [...]}]
        self.summary = {}
        self.crashed = None


def run_replay(cases_path, name="replay", jobs=1, timeout=3600, plain=False):
    """Execute the cases against the real code (harness binary `replay`).  A crash that is
    not a Rust panic (abort, segfault) is attributed to the in-flight case through the
    progress file, and the run resumes with the next case."""
    wdir = os.path.join(WORK, "replay", name)
    shutil.rmtree(wdir, ignore_errors=True)
    os.makedirs(wdir)
    out = ReplayResult()
    out.crashes = []
    out.n_obs = 0
    out.obs_path = os.path.join(wdir, "events.ndjson")
    obs_fh = open(out.obs_path, "w", errors="replace")
    t0 = time.time()
    start = 0
    summaries = []
    rounds = 0
    while True:
        rounds += 1
        res_path = os.path.join(wdir, "results-%d.jsonl" % rounds)
        prog = os.path.join(wdir, "progress")
        r = sh([os.path.join(BIN_PLAIN if plain else BIN, "replay"), cases_path, res_path, prog, str(start)], stdout=subprocess.PIPE,
               stderr=subprocess.PIPE, timeout=timeout)
        if r.returncode == 2:
            raise ToolError("harness error: " + r.stderr.decode(errors="replace")[-2000:])
        if os.path.exists(res_path):
            with open(res_path, errors="replace") as fh:
                for line in fh:
                    if not line.strip():
                        continue
                    try:
                        o = json.loads(line)
                    except ValueError:
                        continue      # line cut by the crash
                    if "summary" in o:
                        summaries.append(o["summary"])
                    elif "obs" in o:
                        obs_fh.write(json.dumps(o["obs"]) + "\n")
                        out.n_obs += 1
                    else:
                        out.fails.append(o)
        if r.returncode == 0:
            break
        idx = -1
        try:
            idx = int(open(prog).read().strip())
        except Exception:
            pass
        case = None
        if idx >= 0:
            with open(cases_path) as fh:
                for i, line in enumerate(fh):
                    if i == idx:
                        case = json.loads(line)
                        break
        crash = {"i": idx, "case": case, "exit": r.returncode, "stderr": r.stderr.decode(errors="replace")[-600:]}
        out.crashes.append(crash)
        out.crashed = crash
        if idx < 0 or rounds > 200:
            break
        start = idx + 1
    obs_fh.close()
    # merge summaries
    merged = {"checks": 0, "failed_cases": 0, "kinds": {}}
    for s in summaries:
        merged["checks"] += s.get("checks", 0)
        merged["failed_cases"] += s.get("failed_cases", 0)
        for k, v in s.get("kinds", {}).items():
            m = merged["kinds"].setdefault(k, {"cases": 0, "checks": 0, "failed_cases": 0})
            for kk in m:
                m[kk] += v.get(kk, 0)
    out.summary = merged
    out.wall = time.time() - t0
    log("replay %-26s %9d checks  %6d failing cases  %.1fs%s" % (
        name, out.summary.get("checks", 0), len(out.fails), out.wall,
        "  %d CRASH(ES)" % len(out.crashes) if out.crashes else ""))
    return out


TRACE_CHUNK = 100000    # events per TLC run: every worker holds the deserialized file (about 5 kB of heap per event)


def run_trace(events_path, name="trace", spec="trace/Trace_Events", workers=8, timeout=7200, select=None):
    """Direction B: validate events recorded from the real code with a TLC trace specification.
    Returns (n_events, [non-conforming events], TlcResult).  Large recordings are validated in chunks of
    TRACE_CHUNK events (the events are independent of one another); the returned TlcResult is the first
    chunk's, with the state counts of all chunks added up."""
    wdir = os.path.join(WORK, "trace", name)
    shutil.rmtree(wdir, ignore_errors=True)
    os.makedirs(wdir)
    parts = []
    n = 0
    out = None
    with open(events_path) as fh:
        for line in fh:
            if not line.strip():
                continue
            if select is not None and not select(json.loads(line)):
                continue
            if n % TRACE_CHUNK == 0:
                if out:
                    out.close()
                parts.append(os.path.join(wdir, "events.ndjson" if not parts else "events.part%d.ndjson" % len(parts)))
                out = open(parts[-1], "w")
            out.write(line)
            n += 1
    if out:
        out.close()
    if n == 0:
        return 0, [], None
    bad = []
    first = None
    for k, sel in enumerate(parts):
        nk = min(TRACE_CHUNK, n - k * TRACE_CHUNK)
        r = run_tlc(spec, name="trace-" + name + ("" if k == 0 else ".part%d" % k), workers=workers, timeout=timeout,
                    coverage=False, env_extra={"TRACE": sel})
        with open(r.cases_path) as fh:
            for line in fh:
                o = json.loads(line)
                if "nonconf" in o:
                    o["nonconf"] += k * TRACE_CHUNK
                    bad.append(o)
        if r.error:
            raise ToolError("trace specification failed on %s: %s" % (name, r.error))
        # every line consumed: 1 initial state + K chain heads + one state per event
        expect = 1 + 16 + nk
        if r.distinct != expect:
            raise ToolError("trace validation of %s consumed %d states, expected %d (events not all consumed)" % (
                name, r.distinct, expect))
        if first is None:
            first = r
        else:
            first.distinct += r.distinct
            first.generated += r.generated
            first.wall += r.wall
    log("trace  %-26s %9d events   %6d non-conforming%s" % (name, n, len(bad), ("  (%d chunks)" % len(parts)) if len(parts) > 1 else ""))
    return n, bad, first


def _codepoints(hexstr):
    if hexstr is None:
        return [-1]
    raw = bytes.fromhex(hexstr)
    try:
        return [ord(ch) for ch in raw.decode("utf-8")]
    except UnicodeDecodeError:
        return [0x110000 + b for b in raw]


def _has_scheme(raw):
    for i, b in enumerate(raw):
        ch = chr(b)
        if ch == ":":
            return i > 0
        if ch in "/?#" or not (ch.isascii() and (ch.isalnum() or ch in "+-.")) or (i == 0 and not ch.isalpha()):
            return False
    return False


def hook_event(line):
    """One line written by the library's own hooks (crates/core/src/verif_trace.rs, --cfg iref_verif)
    as an event of the trace specification.  This is a re-encoding only: type name -> family/kind,
    hexadecimal -> code points."""
    h = json.loads(line)
    if h["post"] is None and not h["panic"]:
        return None     # the call returned from a place without a hook: nothing to judge
    if h["op"] == "remove_dot_segments":
        return None     # RFC 3986 5.2.4 as an outermost call: not a public operation (resolve is recorded as a whole)
    ty = h["ty"]
    fam = "uri" if "::uri::" in ty else "iri"
    last = ty.split("::")[-1]
    pre_raw = bytes.fromhex(h["pre"])
    if h["op"] == "relative_to":
        return {"ev": "rel", "fam": fam, "a": _codepoints(h["pre"]), "b": _codepoints(h["arg"]),
                "r": _codepoints(h["post"]) if h["post"] is not None else [], "a_after": _codepoints(h["pre"]),
                "b_after": _codepoints(h["arg"]), "panic": h["panic"], "src": "hook"}
    if last in ("UriBuf", "IriBuf"):
        kind = "full"
    elif last in ("UriRefBuf", "IriRefBuf"):
        kind = "ref"
    elif h["standalone"]:
        kind = "path" if last == "Path" else "authority"
    else:
        # a handle inside a buffer does not know the buffer's type: a text with a scheme is judged as
        # a full URI/IRI (the two languages coincide on such texts, MC_Incl)
        kind = "full" if _has_scheme(pre_raw) else "ref"
    return {"ev": "edit", "fam": fam, "kind": kind, "pre": _codepoints(h["pre"]), "op": h["op"],
            "arg": _codepoints(h["arg"]), "post": _codepoints(h["post"]) if h["post"] is not None else [],
            "panic": h["panic"], "src": "hook"}


def repo_fingerprint():
    parts = []
    for cmd in (["git", "-C", REPO, "rev-parse", "HEAD"], ["git", "-C", REPO, "status", "--porcelain"],
                ["git", "-C", REPO, "diff", "HEAD"]):
        r = sh(cmd, stdout=subprocess.PIPE, stderr=subprocess.DEVNULL)
        parts.append(r.stdout)
    return hashlib.sha256(b"\0".join(parts)).hexdigest()


def run_suite_trace():
    """Direction B on the repository's OWN tests: build /repo with the hooks on (--cfg iref_verif), run its
    unit, integration and doc tests with IREF_VERIF_TRACE set, and return the recorded calls as trace-spec
    events.  Cached per state of the working tree (all checks of one sweep share one recording)."""
    wdir = os.path.join(WORK, "suite")
    os.makedirs(wdir, exist_ok=True)
    fp = repo_fingerprint()
    events = os.path.join(wdir, "events.ndjson")
    stamp = os.path.join(wdir, "fingerprint")
    if os.path.exists(events) and os.path.exists(stamp) and open(stamp).read() == fp:
        return events
    if not os.path.exists(os.path.join(REPO, "crates", "core", "src", "verif_trace.rs")):
        raise ToolError("the hooks (crates/core/src/verif_trace.rs) are missing from %s" % REPO)
    raw = os.path.join(wdir, "hooks.ndjson")
    if os.path.exists(raw):
        os.remove(raw)
    t0 = time.time()
    env = {"IREF_VERIF_TRACE": raw, "RUSTFLAGS": "--cfg iref_verif", "CARGO_NET_OFFLINE": "true"}
    # cargo does not see grammar.abnf / *.aut.cbor: force the proc-macro to run again when they changed
    target = os.path.join(WORK, "suite-target")
    gstamp = os.path.join(wdir, "grammar-fingerprint")
    gfp = grammar_fingerprint()
    if os.path.isdir(target) and (not os.path.exists(gstamp) or open(gstamp).read() != gfp):
        sh(["cargo", "clean", "--offline", "--manifest-path", os.path.join(REPO, "Cargo.toml"), "--target-dir", target,
            "-p", "iref-core", "-p", "iref", "-p", "iref-macros"], env=env, stdout=subprocess.DEVNULL, stderr=subprocess.DEVNULL)
    r = sh(["cargo", "test", "--workspace", "--offline", "--manifest-path", os.path.join(REPO, "Cargo.toml"),
            "--target-dir", target], env=env, stdout=subprocess.PIPE,
           stderr=subprocess.STDOUT, timeout=3600)
    with open(gstamp, "w") as fh:
        fh.write(grammar_fingerprint())
    out = r.stdout.decode(errors="replace")
    if r.returncode != 0 and "test result:" not in out:
        raise ToolError("cargo test with the hooks on failed to build:\n" + out[-2000:])
    n = lost = 0
    with open(events + ".tmp", "w") as fh:
        if os.path.exists(raw):
            for line in open(raw, errors="replace"):
                line = line.strip()
                if not line:
                    continue
                try:
                    e = hook_event(line)
                except (ValueError, KeyError):
                    continue    # a line cut short by a dying test process
                if e is None:
                    lost += 1
                    continue
                fh.write(json.dumps(e) + "\n")
                n += 1
    os.replace(events + ".tmp", events)
    with open(stamp, "w") as fh:
        fh.write(fp)
    log("suite  the repository's own tests with hooks on: %d calls recorded in %.1fs%s%s" % (
        n, time.time() - t0, "" if r.returncode == 0 else "  (some tests FAILED)",
        ("  (%d calls returned without passing their exit hook)" % lost) if lost else ""))
    return events


def _drive(args, wdir):
    """Run the drive binary; if it dies (abort / signal) return the call that was in flight."""
    prog = os.path.join(wdir, "pending.json")
    r = sh([os.path.join(BIN, "drive")] + args, env={"DRIVE_PROGRESS": prog}, stdout=subprocess.PIPE,
           stderr=subprocess.PIPE, timeout=3600)
    crash = None
    if r.returncode == 2:
        raise ToolError("drive usage error: " + r.stderr.decode(errors="replace")[-1000:])
    if r.returncode != 0:
        try:
            crash = json.loads(open(prog, errors="replace").read())
        except Exception:
            raise ToolError("drive died (exit %d) outside a call: %s" % (r.returncode, r.stderr.decode(errors="replace")[-1000:]))
        crash["msg"] = (crash.get("msg", "") + " | " + r.stderr.decode(errors="replace")[-300:]).strip()
    return r.stdout.decode(errors="replace").strip(), crash


LAST_DRIVE_CRASH = {}


def run_drive_big(name):
    """Very large inputs (up to 1 MB): structural observations."""
    wdir = os.path.join(WORK, "drive", name)
    shutil.rmtree(wdir, ignore_errors=True)
    os.makedirs(wdir)
    out = os.path.join(wdir, "events.ndjson")
    cnt, crash = _drive(["big", "0", "0", out], wdir)
    LAST_DRIVE_CRASH[out] = crash
    log("drive  %-26s %9s big-input events recorded%s" % (name, cnt, "  PROCESS DIED in a call" if crash else ""))
    return out


def run_drive_sessions(name, n, seed_offset=0):
    """Sessions of 5-40 calls through ONE path / authority handle of the real code, recorded as events."""
    wdir = os.path.join(WORK, "drive", name)
    shutil.rmtree(wdir, ignore_errors=True)
    os.makedirs(wdir)
    out = os.path.join(wdir, "events.ndjson")
    cnt, crash = _drive(["sessions", str(seed() + seed_offset), str(n), out], wdir)
    LAST_DRIVE_CRASH[out] = crash
    log("drive  %-26s %9s session events recorded (%d sessions)%s" % (name, cnt, n, "  PROCESS DIED in a call" if crash else ""))
    return out


def run_trace_sessions(events_path, name, procs=8, timeout=7200):
    """Stateful trace validation (spec/trace/Trace_Sessions.tla).  Sessions are independent of one
    another, so the file is dealt out to `procs` TLC processes session by session; within a
    session the specification carries the handle's abstract state from event to event."""
    import threading
    wdir = os.path.join(WORK, "trace", name)
    shutil.rmtree(wdir, ignore_errors=True)
    os.makedirs(wdir)
    # group the lines by session, then deal the sessions out greedily by weight (long texts cost more)
    sessions = []
    n = 0
    with open(events_path, errors="replace") as fh:
        for line in fh:
            if not line.strip():
                continue
            try:
                is_open = json.loads(line).get("ev", "").startswith("open_")
            except ValueError:
                continue          # last line cut by a crash of the driver
            if is_open or not sessions:
                sessions.append([])
            sessions[-1].append(line)
            n += 1
    parts = [[] for _ in range(procs)]
    load = [0] * procs
    for sess in sorted(sessions, key=lambda ls: -sum(len(l) ** 2 for l in ls)):
        i = load.index(min(load))
        parts[i].extend(sess)
        load[i] += sum(len(l) ** 2 for l in sess)
    if n == 0:
        return 0, [], []
    running = []
    for i, lines in enumerate(parts):
        if not lines:
            continue
        f = os.path.join(wdir, "part%d.ndjson" % i)
        with open(f, "w") as fh:
            fh.writelines(lines)
        running.append((i, f, len(lines)))
    out = {}
    errs = []

    def work(i, f):
        try:
            out[i] = run_tlc("trace/Trace_Sessions", name="trace-%s-p%d" % (name, i), workers=1, timeout=timeout,
                             coverage=False, env_extra={"TRACE": f}, xmx="3g")
        except ToolError as e:
            errs.append(str(e))

    ths = [threading.Thread(target=work, args=(i, f)) for i, f, _ in running]
    for t in ths:
        t.start()
    for t in ths:
        t.join()
    if errs:
        raise ToolError("session trace validation failed: " + errs[0])
    bad = []
    results = []
    for i, f, cnt in running:
        r = out[i]
        if r.error:
            raise ToolError("trace specification error on %s part %d: %s" % (name, i, r.error))
        if r.distinct != cnt + 1:
            raise ToolError("session trace part %d consumed %d states, expected %d" % (i, r.distinct, cnt + 1))
        with open(r.cases_path) as fh:
            for line in fh:
                o = json.loads(line)
                if "nonconf" in o:
                    bad.append(o)
        results.append(r)
    log("trace  %-26s %9d session events %6d non-conforming" % (name, n, len(bad)))
    return n, bad, results


def run_drive_parse(name, n, seed_offset=0):
    """Random texts (valid references, near misses, IP shapes, ill-formed UTF-8) through the real parsers."""
    wdir = os.path.join(WORK, "drive", name)
    shutil.rmtree(wdir, ignore_errors=True)
    os.makedirs(wdir)
    out = os.path.join(wdir, "events.ndjson")
    r = sh([os.path.join(BIN, "drive"), "parse", str(seed() + seed_offset), str(n), out],
           stdout=subprocess.PIPE, stderr=subprocess.PIPE, timeout=3600)
    crash = None
    cnt = r.stdout.decode().strip()
    if r.returncode == 2:
        raise ToolError("drive parse usage error: " + r.stderr.decode(errors="replace")[-2000:])
    if r.returncode != 0:
        # the process died in a call (an abort is not an unwinding panic): run again with the progress
        # marker on (slower) to learn which call it was; the events before it are kept
        cnt, crash = _drive(["parse", str(seed() + seed_offset), str(n), out], wdir)
    LAST_DRIVE_CRASH[out] = crash
    log("drive  %-26s %9s parse events recorded%s" % (name, cnt, "  PROCESS DIED in a call" if crash else ""))
    return out


def run_drive(name, histories, steps, seed_offset=0):
    """Random edit histories on the real buffers (harness binary `drive`), recorded as events."""
    wdir = os.path.join(WORK, "drive", name)
    shutil.rmtree(wdir, ignore_errors=True)
    os.makedirs(wdir)
    out = os.path.join(wdir, "events.ndjson")
    cnt, crash = _drive([str(seed() + seed_offset), str(histories), str(steps), out], wdir)
    LAST_DRIVE_CRASH[out] = crash
    log("drive  %-26s %9s events recorded (%d histories x <=%d calls)%s" % (name, cnt, histories, steps, "  PROCESS DIED in a call" if crash else ""))
    return out


# --------------------------------------------------------------------------------------
# Known findings
# --------------------------------------------------------------------------------------

def load_findings():
    p = os.path.join(ROOT, "known_findings.json")
    if not os.path.exists(p):
        return {"findings": [], "fixed": []}
    return json.load(open(p))


# --------------------------------------------------------------------------------------
# Verdict
# --------------------------------------------------------------------------------------

def as_text(v):
    """[code points] -> str for human-readable reports."""
    try:
        if isinstance(v, list) and all(isinstance(x, int) for x in v):
            if v == [-1]:
                return None
            return "".join(chr(x) for x in v)
    except (ValueError, OverflowError):
        pass
    return v


def pretty_case(case):
    if not isinstance(case, dict):
        return case
    out = {}
    for k, v in case.items():
        if isinstance(v, list) and v and all(isinstance(x, int) for x in v):
            t = as_text(v)
            out[k] = t if t is None or (isinstance(t, str) and t.isprintable()) else v
        elif isinstance(v, list) and not v:
            out[k] = ""
        elif isinstance(v, dict):
            out[k] = pretty_case(v)
        elif isinstance(v, list) and all(isinstance(x, (list, dict)) for x in v):
            out[k] = [pretty_case(x) if isinstance(x, dict) else (as_text(x) if x else "") for x in v]
        else:
            out[k] = v
    return out


class Check:
    """Accumulates what one ./check run explored and found for one property."""

    def __init__(self, pid, tier):
        self.pid = pid
        self.tier = tier
        self.t0 = time.time()
        self.states = 0
        self.transitions = 0
        self.traces = 0
        self.evaluations = 0
        self.models = []
        self.samples = []
        self.violations = []      # [{"what", "case", "fails"}]
        self.known = {}           # finding id -> [examples]
        self.assumptions = []
        self.exhaustive = True
        self.extra = {}
        self.classifiers = []     # [(finding dict, predicate)]
        self.crash_props = None   # properties a process abort is charged to (None = this one)
        self.group_key = None     # behaviours that fork: fail only if every branch of a group fails

    # ---- model results
    def add_tlc(self, r, note=None):
        self.states += r.distinct
        self.transitions += r.generated
        m = {"model": r.name, "states_generated": r.generated, "distinct_states": r.distinct,
             "depth": r.depth, "cases_emitted": r.cases, "wall_s": round(r.wall, 1)}
        if r.coverage:
            m["actions"] = {k: {"distinct": v[0], "taken": v[1]} for k, v in sorted(r.coverage.items())}
        if note:
            m["note"] = note
        self.models.append(m)
        if r.error:
            v = {"what": "TLC reports an error in model %s" % r.name, "error": r.error, "trace": r.trace[-3:]}
            # a counterexample word, when the last state of the error trace carries one
            try:
                last = "\n".join(r.trace[-1])
                mt = re.search(r'ty = "(\w+)"', last)
                mw = re.search(r'\bw = <<([0-9, ]*)>>', last)
                if mw:
                    cps = [int(x) for x in mw.group(1).split(",") if x.strip()]
                    v["counterexample"] = {"type": mt.group(1) if mt else None, "w": cps,
                                           "text": "".join(chr(c) for c in cps if c < 0x110000)}
                    v["what"] += ": type %s, word %r" % (mt.group(1) if mt else "?", v["counterexample"]["text"])
            except Exception:
                pass
            self.violations.append(v)

    def add_samples(self, cases_path, n=3):
        try:
            with open(cases_path) as fh:
                lines = []
                for i, line in enumerate(fh):
                    if i < n:
                        lines.append(line)
                    else:
                        break
            for line in lines:
                self.samples.append(pretty_case(json.loads(line)))
        except OSError:
            pass

    # ---- replay results: keep only failures charged to this property
    def add_replay(self, rr, label, cases_path=None):
        s = rr.summary
        n_cases = sum(k.get("cases", 0) for k in s.get("kinds", {}).values())
        self.traces += n_cases
        self.evaluations += s.get("checks", 0)
        self.extra.setdefault("replays", []).append(
            {"label": label, "cases": n_cases, "comparisons": s.get("checks", 0),
             "failing_cases_all_properties": len(rr.fails)})
        for cr in getattr(rr, "crashes", []):
            fail = {"props": [self.pid], "what": "process_abort",
                    "panic": "the process died (not an unwinding Rust panic) while executing this case: " + cr.get("stderr", "")[-300:]}
            if self.crash_props is None or self.pid in self.crash_props:
                self.judge(cr.get("case") or {"k": "?"}, [fail])
        mine_recs = []
        for rec in rr.fails:
            mine = [f for f in rec["fails"] if self.pid in f.get("props", [])]
            if mine:
                mine_recs.append((rec["case"], mine))
        if self.group_key is not None and cases_path is not None:
            mine_recs = self.collapse_branches(cases_path, mine_recs)
        for case, mine in mine_recs:
            self.judge(case, mine)

    def collapse_branches(self, cases_path, recs):
        """Behaviours whose abstract value forks are printed once per branch; the implementation
        follows one of them.  A group (same inputs and calls) fails only if all its branches fail;
        then the branch that got furthest is reported."""
        total = {}
        with open(cases_path) as fh:
            for line in fh:
                c = json.loads(line)
                k = self.group_key(c)
                if k is not None:
                    total[k] = total.get(k, 0) + 1
        failing = {}
        out = []
        for case, mine in recs:
            k = self.group_key(case)
            if k is None:
                out.append((case, mine))
            else:
                failing.setdefault(k, []).append((case, mine))
        for k, lst in failing.items():
            if len(lst) >= total.get(k, 0):
                # every branch failed: report the one with the fewest failed comparisons
                lst.sort(key=lambda cm: len(cm[1]))
                out.append(lst[0])
        return out

    def add_trace(self, n, bad, r, label, charge=None):
        if r is not None:
            self.add_tlc(r, label)
        self.traces += n
        self.extra.setdefault("trace_validation", []).append({"label": label, "events": n, "non_conforming": len(bad)})
        for b in bad:
            ev = b["event"]
            props = charge(ev, b.get("why", "unexpected")) if charge else [self.pid]
            if self.pid not in props:
                continue
            fail = {"props": props, "what": "trace.nonconforming.%s.%s" % (ev.get("ev"), b.get("why", "")),
                    "event_line": b["nonconf"]}
            if b.get("expected"):
                fail["expected_one_of"] = [as_text(x) if x else "" for x in b["expected"]]
                obs = ev.get("post") if "post" in ev else ev.get("view")
                fail["observed"] = as_text(obs) if obs else ""
            self.judge(ev, [fail])

    def judge(self, case, fails):
        """Split the failed comparisons of one case into known findings and violations."""
        rest = []
        for f in fails:
            hit = None
            for finding, pred in self.classifiers:
                try:
                    if pred(case, f):
                        hit = finding
                        break
                except Exception:
                    pass
            if hit is None:
                rest.append(f)
            else:
                self.known.setdefault(hit["id"], []).append({"case": pretty_case(case), "fail": f})
        if rest:
            self.violations.append({"case": case, "pretty": pretty_case(case), "fails": rest})

    # ---- final verdict
    def finish(self, level="model_checking", rule=None, assumptions=None):
        os.makedirs(REPLAYS, exist_ok=True)
        wall = time.time() - self.t0
        findings = load_findings()
        lines = []
        for fid, ex in sorted(self.known.items()):
            f = next((x for x in findings["findings"] if x["id"] == fid), {"summary": ""})
            lines.append("KNOWN-FINDING: property=%s %s (%d cases) %s e.g. %s" % (
                self.pid, fid, len(ex), f.get("summary", ""), json.dumps(ex[0]["case"], ensure_ascii=False)[:300]))
        replay_paths = []
        if self.violations:
            # one replay file per (up to 5) distinct violation; all in one VIOLATION line each
            for v in self.violations[:5]:
                blob = json.dumps(v, sort_keys=True, ensure_ascii=False)
                dig = hashlib.sha256(blob.encode()).hexdigest()[:12]
                p = os.path.join(REPLAYS, "%s-%s.json" % (self.pid, dig))
                with open(p, "w") as fh:
                    json.dump({"property": self.pid, "tier": self.tier, "seed": seed(),
                               "violation": v, "cases": [v["case"]] if isinstance(v.get("case"), dict) and "k" in v.get("case", {}) else []},
                              fh, indent=1, ensure_ascii=False)
                replay_paths.append(p)
        cov = {
            "states": max(self.states, 0),
            "transitions": max(self.transitions, 0),
            "traces_validated_against_impl": self.traces,
            "samples": self.samples[:8] or ["(none)"],
            "evaluations": self.evaluations,
            "models": self.models,
            "exhaustive": self.exhaustive,
            "known_findings_matched": {k: len(v) for k, v in sorted(self.known.items())},
        }
        if rule:
            cov["rule"] = rule
        cov.update(self.extra)
        ev = {"property_id": self.pid, "tier": self.tier, "seed": seed(), "level": level,
              "coverage": cov, "assumptions": (assumptions or []) + self.assumptions,
              "wall_s": round(wall, 1), "violations": len(self.violations)}
        os.makedirs(EVIDENCE, exist_ok=True)
        with open(os.path.join(EVIDENCE, "%s.json" % self.pid), "w") as fh:
            json.dump(ev, fh, indent=1, ensure_ascii=False)
            fh.write("\n")
        for l in lines:
            print(l)
        if self.violations:
            for v, p in zip(self.violations, replay_paths):
                desc = v.get("what") or json.dumps(v.get("pretty", v.get("case")), ensure_ascii=False)[:200]
                fl = v.get("fails", [])
                first = json.dumps(fl[0], ensure_ascii=False)[:300] if fl else (v.get("error", "") or "")[:300]
                print("VIOLATION property=%s replay=%s  %s  %s" % (self.pid, p, desc, first))
            if len(self.violations) > len(replay_paths):
                print("[check] ... and %d more violating cases (first 5 written)" % (len(self.violations) - len(replay_paths)))
            log("%s: %d violation(s), %d known finding(s), %.1fs" % (self.pid, len(self.violations), len(self.known), wall))
            return 1
        log("%s: held on everything explored (%d states, %d cases replayed, %d comparisons, %d known finding(s)), %.1fs" % (
            self.pid, self.states, self.traces, self.evaluations, len(self.known), wall))
        return 0
