"""Per-property pipelines: which TLC models decide a property, which cases go through the
real code, which recorded traces go back to TLC."""
import json
import os

import findings
import macros
import vlib
from vlib import Check, log, run_replay, run_tlc


def new_check(pid, tier):
    c = Check(pid, tier)
    c.classifiers = findings.classifiers_for(pid)
    return c


def replay_file(pid, path):
    """Re-run exactly the cases stored in a replay file."""
    blob = json.load(open(path))
    cases = blob.get("cases") or []
    c = new_check(pid, "quick")
    if not cases:
        log("replay file holds a specification-level violation (no implementation case): %s" %
            json.dumps(blob.get("violation"), ensure_ascii=False)[:1000])
        c.violations.append(blob.get("violation"))
        return c.finish()
    p = os.path.join(vlib.WORK, "replay-cases.jsonl")
    os.makedirs(vlib.WORK, exist_ok=True)
    with open(p, "w") as fh:
        for cs in cases:
            fh.write(json.dumps(cs) + "\n")
    rr = run_replay(p, name="replay-file")
    c.add_replay(rr, "replay file")
    c.samples = [vlib.pretty_case(x) for x in cases[:3]]
    c.states = c.transitions = 1
    return c.finish()


# ----------------------------------------------------------------------------------------
# C01  parsing accepts exactly the RFC language
# ----------------------------------------------------------------------------------------

def c01(tier):
    c = new_check("C01", tier)
    meta = vlib.gen_dfa()
    r = run_tlc("mc/MC_LangEq", name="MC_LangEq", coverage=False)
    c.add_tlc(r, "complete product DFA x RFC-regex derivatives, all 20 types, all word lengths")
    c.add_samples(r.cases_path)
    c.extra["dfa"] = {k: {"states": v["states"], "transitions": v["transitions"], "cache": v["cache"]}
                      for k, v in meta.items()}
    if not r.error:
        rr = run_replay(r.cases_path, name="C01-cover")
        c.add_replay(rr, "transition cover of the product automaton through every construction route")
    r2 = run_tlc("mc/MC_RefDfaEq", name="MC_RefDfaEq", coverage=False)
    c.add_tlc(r2, "the membership accelerator spec/RefDfa.tla equals the RFC regexes (complete product)")
    for model, cfg in cfgs("mc/MC_Lex", tier, [""]):
        mc_replay(c, model, cfg, "every string (garbage included) of bounded length over a boundary alphabet, all 20 types")
    drive_parse_and_validate(c, tier, "random long references, near misses, IPv6/IPv4 shapes and ill-formed UTF-8 byte strings: "
                                      "verdict (and components) of the real parsers judged by TLC",
                             kinds=("parse", "parse_bytes", "auth"))
    return c.finish(
        rule="one case per transition of the product automaton (low and high symbol of each cell); "
             "non-trivial = distinct (type, word) pairs",
        assumptions=["RFC 3986/3987 ABNF transcription in spec/Rfc3986Abnf.tla, spec/Rfc3987Abnf.tla",
                     "static-regular-grammar's code generator between the cached DFA and the compiled "
                     "validate() is exercised by a transition cover, not proved",
                     "TLC, CommunityModules Json, tools/aut2tla.py CBOR reader"])


def mc_replay(c, model, cfg, label, workers=8, coverage=False, timeout=7200, plain=False):
    """Run one emitting TLC model and push its cases through the real code."""
    r = run_tlc(model, cfg=cfg, name=os.path.basename(cfg), workers=workers, coverage=coverage, timeout=timeout)
    c.add_tlc(r, label)
    c.add_samples(r.cases_path, 2)
    if not r.error and r.cases:
        rr = run_replay(r.cases_path, name=os.path.basename(cfg))
        c.add_replay(rr, label, r.cases_path)
        if plain:
            # the same cases on the library built as users build it (no debug assertions, no overflow checks)
            rr2 = run_replay(r.cases_path, name=os.path.basename(cfg) + ".plain", plain=True)
            c.add_replay(rr2, label + " - same cases, build without debug assertions and overflow checks", r.cases_path)
    return r


def cfgs(model, tier, variants):
    """[(model, cfg)] for the tier: <model>.<variant>.<tier>.cfg ('' = main variant)."""
    out = []
    for v in variants:
        name = "%s.%s%s" % (model, (v + ".") if v else "", tier)
        out.append((model, name))
    return out


TRUST = ["TLC, CommunityModules Json", "rustc / cargo building /repo's working tree",
         "RFC 3986 section 3, 3.2, 5.3 transcription in spec/Parts.tla"]


def c02(tier):
    c = new_check("C02", tier)
    c.add_tlc(run_tlc("mc/MC_Unit", name="MC_Unit", coverage=False), "unit tests of the specification's operators against the examples printed in the RFCs (ASSUMEs)")
    for model, cfg in cfgs("mc/MC_Parts", tier, ["", "iri"]):
        mc_replay(c, model, cfg, "every valid reference within the bound, with its RFC decomposition", plain=True)
    for model, cfg in cfgs("mc/MC_Compose", tier, [""]):
        mc_replay(c, model, cfg, "long structured references composed from component vocabularies (section 3 side conditions)")
    drive_parse_and_validate(c, tier, "random long multi-byte references, and a length sweep (each component in turn 0..140, ~256, ~512, "
                                      "~1024, ~4096 characters long): components reported by the real accessors judged by TLC", sweep=True)
    big_and_validate(c, {"slashes"})
    return c.finish(rule="all valid (I)RI-references of bounded length over a delimiter-rich alphabet, enumerated by "
                         "walking the derivative automaton; each distinct text is one case",
                    assumptions=TRUST)


def c03(tier):
    c = new_check("C03", tier)
    for model, cfg in cfgs("mc/MC_Auth", tier, ["", "iri"]):
        mc_replay(c, model, cfg, "every valid authority within the bound, with its section 3.2 decomposition", plain=True)
    for model, cfg in cfgs("mc/MC_Parts", tier, [""]):
        mc_replay(c, model, cfg, "authorities embedded in references")
    for model, cfg in cfgs("mc/MC_Compose", tier, [""]):
        mc_replay(c, model, cfg, "composed references: IP-literals with user info and port, empty parts, multi-byte hosts", plain=True)
    drive_parse_and_validate(c, tier, "random authorities drawn from the character classes of section 3.2 (every allowed character "
                                      "next to every delimiter, long user infos, all host kinds), stand-alone and embedded; the three "
                                      "readings of user info / host / port judged by TLC", kinds=("auth",))
    return c.finish(rule="all valid authorities of bounded length (IP-literals included), stand-alone and embedded",
                    assumptions=TRUST)


def c20(tier):
    c = new_check("C20", tier)
    for model, cfg in cfgs("mc/MC_Parts", tier, ["", "iri"]):
        mc_replay(c, model, cfg, "byte ranges of components vs. pointer offsets of returned slices; allocation deltas")
    for model, cfg in cfgs("mc/MC_Auth", tier, [""]):
        mc_replay(c, model, cfg, "authority sub-component ranges")
    for model, cfg in cfgs("mc/MC_Compose", tier, [""]):
        mc_replay(c, model, cfg, "composed long references: byte ranges with multi-byte characters in earlier components")
    for model, cfg in cfgs("mc/MC_Paths", tier, [""]):
        mc_replay(c, model, cfg, "segments, first/last/file name/directory/parent: sub-slices of the input, no allocation "
                                 "(paths of up to 33 segments, beyond any inline buffer)")
    for model, cfg in cfgs("mc/MC_SegIter", tier, [""]):
        mc_replay(c, model, cfg, "double-ended segment iteration allocates nothing")
    big_and_validate(c, {"big_path", "big_ref"})
    for model, cfg in cfgs("mc/MC_DataUrl", tier, [""]):
        mc_replay(c, model, cfg, "data URLs: the borrowed constructor, TryFrom, borrowed deserialisation and the accessors allocate nothing")
    return c.finish(rule="every enumerated valid text: allocation delta of parse+accessors must be 0 and every "
                         "returned slice must sit at the byte range computed by spec/Ranges.tla",
                    assumptions=TRUST + ["counting #[global_allocator] in the harness (thread-local counter)"])


def c09(tier):
    c = new_check("C09", tier)
    c.add_tlc(run_tlc("mc/MC_Unit", name="MC_Unit", coverage=False), "unit tests of the specification's operators against the examples printed in the RFCs (ASSUMEs)")
    for model, cfg in cfgs("mc/MC_Paths", tier, ["", "pct", "long"]):
        mc_replay(c, model, cfg, "every path within the bound: normalized segments, admissible texts of the normalized "
                                 "copy and of in-place normalisation, stand-alone and inside references")
    big_and_validate(c, {"big_path"})
    return c.finish(rule="all paths (absolute and relative) of bounded segment count over {'', a, ., .., b:c, %2e, e-acute}",
                    assumptions=TRUST + ["RFC 3986 5.2.4 transcription (Rfc524) and the Errata-4547 stack walk (NormSegs) in "
                                         "spec/PathOps.tla; TLC proves they agree on every enumerated absolute path"])


def c12(tier):
    c = new_check("C12", tier)
    for model, cfg in cfgs("mc/MC_SegIter", tier, [""]):
        mc_replay(c, model, cfg, "every interleaving of next/next_back (two calls past exhaustion) on every path in the bound")
    for model, cfg in cfgs("mc/MC_Paths", tier, ["", "pct"]):
        mc_replay(c, model, cfg, "path queries against the '/'-split of the text")
    return c.finish(rule="paths of bounded segment count with empty, multi-byte and '..' segments; all 2^(n+2) call strings",
                    assumptions=TRUST)


def c06(tier):
    c = new_check("C06", tier)
    c.add_tlc(run_tlc("mc/MC_Unit", name="MC_Unit", coverage=False), "unit tests of the specification's operators against the examples printed in the RFCs (ASSUMEs)")
    for model, cfg in cfgs("mc/MC_Resolve", tier, [""]):
        mc_replay(c, model, cfg, "all (base, reference) pairs of the component vocabularies + the 42 examples of RFC 3986 5.4")
    drive_and_validate(c, tier, ops={"resolve"})
    suite_and_validate(c, {"resolve"})
    big_and_validate(c, {"big_resolve"})
    return c.finish(rule="bases x references composed from scheme/authority/path/query/fragment vocabularies, every 5.2.2 "
                         "branch with dot and empty segments; expected = set of admissible results computed by spec/Resolve.tla",
                    assumptions=TRUST + ["RFC 3986 5.2.2-5.2.4, 5.3 transcription in spec/Resolve.tla (reproduces all 42 "
                                         "examples of section 5.4, checked by TLC)"])


def c07(tier):
    c = new_check("C07", tier)
    for model, cfg in cfgs("mc/MC_Equiv", tier, [""]):
        mc_replay(c, model, cfg, "groups of colliding values per comparable type; all pairs compared with the class key")
    for model, cfg in cfgs("mc/MC_Paths", tier, [""]):
        mc_replay(c, model, cfg, "== / cmp between views of ONE buffer (a path against its parent, directory): the answers of freshly allocated copies")
    return c.finish(rule="all pairs of each group of values built to collide (percent-encoded vs literal, dot segments, "
                         "absent vs empty, ill-formed escapes); expected equality = same Canon computed by spec/Equiv.tla",
                    assumptions=TRUST)


def c08(tier):
    c = new_check("C08", tier)
    for model, cfg in cfgs("mc/MC_Equiv", tier, [""]):
        mc_replay(c, model, cfg, "cmp/partial_cmp/hash of all pairs, owned vs borrowed, Borrow views, rank certificate of the order")
    for model, cfg in cfgs("mc/MC_DataUrl", tier, [""]):
        mc_replay(c, model, cfg, "Borrow<DataUrl> for DataUrlBuf: hash, ==, cmp and set lookups of the owned value against its borrowed view")
    for model, cfg in cfgs("mc/MC_Paths", tier, [""]):
        mc_replay(c, model, cfg, "== / cmp between views of ONE buffer (a path against its parent, directory): the answers of freshly allocated copies")
    return c.finish(rule="same groups as C07; order laws decided on the full observed matrix through a rank certificate "
                         "(total preorder iff ord[i][j] = sign(rank i - rank j) for all pairs)",
                    assumptions=TRUST + ["std::collections::hash_map::DefaultHasher with fixed keys"])


def beh_key(case):
    """Group key of a forking behaviour: the inputs and the calls, not the expectations."""
    if case.get("k") != "pathbeh":
        return None
    return json.dumps([case["kind"], case["pre"], case["suf"], case["init"],
                       [[s["op"], s["arg"], s["args"]] for s in case["steps"]]])


EDIT_TRUST = TRUST + ["documented disambiguation rules R1-R3 as stated in C05 (spec/Editor.tla); TLC proves them "
                      "sufficient for validity and for re-parsing to the intended components"]


EDIT_PROP = {"set_scheme": "C05", "set_authority": "C05", "set_path": "C05", "set_query": "C05", "set_fragment": "C05",
             "push": "C10", "pop": "C10", "clear": "C10", "sym_push": "C10", "normalize": "C10",
             "set_userinfo": "C11", "set_host": "C11", "set_port": "C11", "resolve": "C06"}


def charge_edit(ev, why):
    """Properties a non-conforming edit event is charged to."""
    if ev.get("ev") == "origin":
        return ["C04", "C13"]
    props = [EDIT_PROP.get(ev.get("op"), "C04")]
    if why in ("panic", "invalid"):
        props.append("C04")
    return props


def drive_and_validate(c, tier, ops=None):
    """Direction B: random edit histories on the real buffers, each call judged by TLC."""
    hist, steps = (1000, 30) if tier == "quick" else (15000, 40)
    ev = vlib.run_drive("%s-%s" % (c.pid, tier), hist, steps)
    sel = (lambda e: e.get("op") in ops) if ops else None     # "origin" events have no op: C04 (ops=None) only
    crash = vlib.LAST_DRIVE_CRASH.get(ev)
    if crash is not None and (sel is None or sel(crash)):
        props = charge_edit(crash, "panic")
        if c.pid in props:
            c.judge(crash, [{"props": props, "what": "process_abort", "panic": crash.get("msg", "")}])
    n, bad, tr = vlib.run_trace(ev, name="%s-edit-%s" % (c.pid, tier), select=sel)
    c.add_trace(n, bad, tr, "random edit histories (long texts, multi-byte, 30-40 calls each) recorded from the real "
                            "buffers; every call judged by TLC from the implementation's own previous text", charge=charge_edit)
    c.exhaustive = False


def suite_and_validate(c, ops):
    """Direction B on the repository's own test suite, through the hooks compiled into the library."""
    ev = vlib.run_suite_trace()
    n, bad, tr = vlib.run_trace(ev, name="%s-suite" % c.pid, select=lambda e: (e.get("op") if e["ev"] == "edit" else e["ev"]) in ops)
    c.add_trace(n, bad, tr, "the calls the repository's own unit, integration and doc tests make, recorded by the hooks "
                            "compiled into the library (--cfg iref_verif) and judged by the trace specification",
                charge=lambda e, why: charge_edit(e, why) if e["ev"] == "edit" else ["C15"])


def charge_parse(ev, why):
    if ev.get("ev") == "auth":
        return ["C01"] if why == "verdict" else ["C03", "C01"] if why == "panic" else ["C03"]
    return ["C01", "C02", "C14"]


def drive_parse_and_validate(c, tier, label, kinds=("parse", "parse_bytes"), sweep=False):
    n = 6000 if tier == "quick" else 150000
    ev = vlib.run_drive_parse("%s-%s" % (c.pid, tier), n)
    crash = vlib.LAST_DRIVE_CRASH.get(ev)
    if crash is not None:
        props = charge_parse(crash, "panic")
        if c.pid in props:
            c.judge(crash, [{"props": props, "what": "process_abort", "panic": crash.get("msg", "")}])
    k, bad, tr = vlib.run_trace(ev, name="%s-parse-%s" % (c.pid, tier),
                                select=lambda e: (e.get("ev") in kinds and (sweep or e.get("src") != "sweep")) or (sweep and e.get("ev") == "sweep_big"))
    c.add_trace(k, bad, tr, label, charge=charge_parse)
    c.exhaustive = False


def charge_session(ev, why):
    p = "C11" if ev.get("ev", "").endswith("auth") else "C10"
    return [p, "C04"] if why == "panic" else [p]


def sessions_and_validate(c, tier, which):
    """Direction B for handles: sessions through one handle, validated by the stateful trace spec."""
    n = 300 if tier == "quick" else 4000
    ev = vlib.run_drive_sessions("%s-%s" % (c.pid, tier), n)
    crash = vlib.LAST_DRIVE_CRASH.get(ev)
    if crash is not None and (which is None or crash.get("ev", "").endswith(which)):
        props = charge_session(crash, "panic")
        if c.pid in props:
            c.judge(crash, [{"props": props, "what": "process_abort", "panic": crash.get("msg", "")}])
    k, bad, results = vlib.run_trace_sessions(ev, "%s-sessions-%s" % (c.pid, tier))
    for r in results[:1]:
        c.add_tlc(r, "stateful trace specification of handle sessions (one of the parallel parts)")
    for r in results[1:]:
        c.states += r.distinct
        c.transitions += r.generated
    bad = [b for b in bad if which is None or b["event"].get("ev", "").endswith(which)]
    c.add_trace(k, bad, None, "sessions of 5-40 calls through ONE handle of the real code (long multi-byte texts); the trace "
                              "specification carries the handle's abstract state and judges every view and the final buffer",
                charge=charge_session)
    c.exhaustive = False


def big_and_validate(c, which):
    """Inputs of 100 kB - 1 MB (beyond every inline buffer and 16-bit offset), judged structurally by TLC."""
    ev = vlib.run_drive_big("%s-big" % c.pid)
    crash = vlib.LAST_DRIVE_CRASH.get(ev)
    if crash is not None and crash.get("ev") in which:
        c.judge(crash, [{"props": [c.pid], "what": "process_abort", "panic": crash.get("msg", "")}])
    n, bad, tr = vlib.run_trace(ev, name="%s-big" % c.pid, select=lambda e: e.get("ev") in which, workers=2)
    c.add_trace(n, bad, tr, "very large inputs: fixed point of normalisation, segment counts, allocation-free access, ranges tile the input")


def c04(tier):
    c = new_check("C04", tier)
    c.group_key = beh_key
    for model, cfg in cfgs("mc/MC_Editor", tier, [""]):
        mc_replay(c, model, cfg, "every edge (mutator x argument) from every text reachable within the bound")
    for model, cfg in cfgs("mc/MC_PathMut", tier, [""]):
        mc_replay(c, model, cfg, "call sequences through one path handle")
    for model, cfg in cfgs("mc/MC_AuthMut", tier, [""]):
        mc_replay(c, model, cfg, "call sequences through one authority handle")
    for model, cfg in cfgs("mc/MC_Paths", tier, ["", "long"]):
        mc_replay(c, model, cfg, "in-place normalisation stand-alone and inside references (incl. paths beyond 512 bytes)")
    drive_and_validate(c, tier)
    sessions_and_validate(c, tier, None)
    suite_and_validate(c, set(EDIT_PROP))
    big_and_validate(c, {"big_path", "big_pct", "big_resolve", "big_edit"})
    return c.finish(rule="editor state graph: nodes = texts reachable within the length bound from 5 initial buffers, "
                         "edges = every mutator with every vocabulary argument; plus handle behaviours",
                    assumptions=EDIT_TRUST)


def c05(tier):
    c = new_check("C05", tier)
    for model, cfg in cfgs("mc/MC_Editor", tier, [""]):
        mc_replay(c, model, cfg, "setter edges: expected text fixed by the specification (R1-R3 mandatory exactly when needed)")
    drive_and_validate(c, tier, ops={"set_scheme", "set_authority", "set_path", "set_query", "set_fragment"})
    suite_and_validate(c, {"set_scheme", "set_authority", "set_path", "set_query", "set_fragment"})
    big_and_validate(c, {"big_edit"})
    return c.finish(rule="the five setters with every vocabulary argument from every reachable text",
                    assumptions=EDIT_TRUST)


def c10(tier):
    c = new_check("C10", tier)
    c.group_key = beh_key
    for model, cfg in cfgs("mc/MC_PathMut", tier, [""]):
        mc_replay(c, model, cfg, "all call sequences of bounded depth through one path handle, in 6 contexts")
    for model, cfg in cfgs("mc/MC_Editor", tier, [""]):
        mc_replay(c, model, cfg, "single path-editing calls from every reachable text")
    drive_and_validate(c, tier, ops={"push", "pop", "clear", "sym_push", "normalize"})
    sessions_and_validate(c, tier, "path")
    suite_and_validate(c, {"push", "pop", "clear", "sym_push", "normalize"})
    return c.finish(rule="contexts x initial paths x all sequences of push/pop/clear/symbolic_push/symbolic_append/normalize",
                    assumptions=EDIT_TRUST)


def c11(tier):
    c = new_check("C11", tier)
    for model, cfg in cfgs("mc/MC_AuthMut", tier, [""]):
        mc_replay(c, model, cfg, "all call sequences of bounded depth through one authority handle; exact view and text after each call")
    for model, cfg in cfgs("mc/MC_Editor", tier, [""]):
        mc_replay(c, model, cfg, "single authority-editing calls from every reachable text")
    drive_and_validate(c, tier, ops={"set_userinfo", "set_host", "set_port"})
    sessions_and_validate(c, tier, "auth")
    suite_and_validate(c, {"set_userinfo", "set_host", "set_port"})
    return c.finish(rule="initial references x all sequences of set_userinfo/set_host/set_port",
                    assumptions=EDIT_TRUST)


def c19(tier):
    c = new_check("C19", tier)
    for model, cfg in cfgs("mc/MC_Pct", tier, [""]):
        mc_replay(c, model, cfg, "component texts over a token alphabet covering every class of Unicode Table 3-7")
    big_and_validate(c, {"big_pct"})
    return c.finish(rule="token strings of bounded length for user info, host, segment, query, fragment of both families",
                    assumptions=TRUST + ["Unicode Table 3-7 transcription in spec/Pct.tla (TLC checks the UTF-8 round trip)"])


def c15(tier):
    c = new_check("C15", tier)
    for model, cfg in cfgs("mc/MC_Rel", tier, ["", "pct"]):
        r = run_tlc(model, cfg=cfg, name=os.path.basename(cfg), coverage=False)
        c.add_tlc(r, "pairs of URIs sharing prefixes of every length (inputs only; TLC also checks satisfiability)")
        if r.error:
            continue
        rr = run_replay(r.cases_path, name=os.path.basename(cfg))
        c.add_replay(rr, "relative_to executed on every pair, result recorded", r.cases_path)
        n, bad, tr = vlib.run_trace(rr.obs_path, name="C15-" + os.path.basename(cfg), select=lambda e: e.get("ev") == "rel")
        c.add_trace(n, bad, tr, "recorded (a, b, a.relative_to(b)) judged with the specification's resolver and equivalence")
        with open(rr.obs_path) as fh:
            for line in fh:
                e = json.loads(line)
                if e.get("ev") == "rel":
                    c.samples.append(vlib.pretty_case(e))
                    if len(c.samples) >= 4:
                        break
    return c.finish(rule="pairs (a, b): schemes equal/different, authorities equal/different/absent, absolute and rootless "
                         "paths of bounded segment count with dot, empty and colon segments, query/fragment; each recorded "
                         "result is one validated event",
                    assumptions=TRUST + ["spec/Resolve.tla and spec/Equiv.tla as the judge of the round trip"])


def c16(tier):
    c = new_check("C16", tier)
    for model, cfg in cfgs("mc/MC_Rel", tier, ["", "pct"]):
        r = run_tlc(model, cfg=cfg, name=os.path.basename(cfg), coverage=False)
        c.add_tlc(r, "value/prefix pairs of paths and URIs (inputs only; TLC checks prefix ++ suffix = value)")
        if r.error:
            continue
        rr = run_replay(r.cases_path, name=os.path.basename(cfg))
        c.add_replay(rr, "suffix executed on every pair, result recorded", r.cases_path)
        n, bad, tr = vlib.run_trace(rr.obs_path, name="C16-" + os.path.basename(cfg), select=lambda e: e.get("ev") == "suffix")
        c.add_trace(n, bad, tr, "recorded suffix results judged by TLC (existence, remaining segments, query/fragment)")
    for model, cfg in cfgs("mc/MC_Parts", tier, ["", "iri"]):
        mc_replay(c, model, cfg, "base() of every valid reference within the bound")
    for model, cfg in cfgs("mc/MC_Compose", tier, [""]):
        mc_replay(c, model, cfg, "base() of composed long references")
    return c.finish(rule="suffix: pairs of paths / URIs over {a, b, '', ., .., %61}; base: every enumerated valid reference",
                    assumptions=TRUST)


def c13(tier):
    c = new_check("C13", tier)
    r = run_tlc("mc/MC_Incl", name="MC_Incl", coverage=False)
    c.add_tlc(r, "complete: L(U) = L(I) /\\ ASCII* for the 9 URI/IRI type pairs; X = X-reference with a scheme, both families")
    r2 = run_tlc("mc/MC_RefDfaEq", name="MC_RefDfaEq", coverage=False)
    c.add_tlc(r2, "the membership accelerator equals the RFC regexes")
    vlib.gen_dfa()
    r3 = run_tlc("mc/MC_LangEq", name="MC_LangEq", coverage=False)
    c.add_tlc(r3, "the implementation's cached DFAs accept exactly the RFC languages the facts above are about (so the "
                  "facts hold of what the code accepts)")
    for model, cfg in cfgs("mc/MC_Parts", tier, ["", "iri"]):
        mc_replay(c, model, cfg, "the complete conversion lattice (as_*, into_*, try_into_*, From, TryFrom, Borrow; borrowed and "
                                 "owned) on every enumerated valid reference")
    for model, cfg in cfgs("mc/MC_Compose", tier, [""]):
        mc_replay(c, model, cfg, "the conversion lattice on composed long references")
    for model, cfg in cfgs("mc/MC_Editor", tier, [""]):
        mc_replay(c, model, cfg, "editing results identical in both families on ASCII input")
    for model, cfg in cfgs("mc/MC_Resolve", tier, [""]):
        mc_replay(c, model, cfg, "resolution results identical in both families")
    for model, cfg in cfgs("mc/MC_Equiv", tier, [""]):
        mc_replay(c, model, cfg, "hash / comparison of a URI agree with its IRI views")
    return c.finish(rule="language facts decided on complete product automata; conversions and family agreement on every "
                         "case of the bounded models of C02, C05, C06, C08",
                    assumptions=TRUST)


def c14(tier):
    c = new_check("C14", tier)
    c.crash_props = []
    meta = vlib.gen_dfa()
    r = run_tlc("mc/MC_LangEq", name="MC_LangEq", coverage=False)
    c.add_tlc(r, "transition cover words (valid and invalid) for all 20 types")
    c.add_samples(r.cases_path, 2)
    if not r.error:
        rr = run_replay(r.cases_path, name="C14-cover")
        c.add_replay(rr, "every route out reproduces the text, every route in gives the constructor's verdict")
    for model, cfg in cfgs("mc/MC_Lex", tier, [""]):
        mc_replay(c, model, cfg, "bounded-exhaustive strings through every route")
    for model, cfg in cfgs("mc/MC_Equiv", tier, [""]):
        mc_replay(c, model, cfg, "comparison with plain strings is plain text comparison, on groups of equivalent spellings")
    for model, cfg in cfgs("mc/MC_DataUrl", tier, [""]):
        mc_replay(c, model, cfg, "data URLs: TryFrom / FromStr / serde routes accept exactly what the validating constructor accepts")
    return c.finish(rule="C01's words through Display/Debug/as_str/as_bytes/AsRef/Borrow/From/into_*/to_owned/Clone/Serialize and "
                         "FromStr/TryFrom/from_vec/serde (str, string, bytes, byte_buf, borrowed)/serde_json",
                    assumptions=TRUST + ["serde_json, serde::de::value deserializers"])


def c17(tier):
    c = new_check("C17", tier)
    for model, cfg in cfgs("mc/MC_Macro", tier, [""]):
        r = run_tlc(model, cfg=cfg, name=os.path.basename(cfg), coverage=False)
        c.add_tlc(r, "literals (all short strings over an escape-rich alphabet + composed long ones) with verdict and RFC components")
        c.add_samples(r.cases_path, 3)
        if not r.error:
            macros.run(c, r.cases_path)
    return c.finish(rule="one macro invocation per literal; accepted literals are compiled into constants whose text, "
                         "components and equality with the run-time parse are inspected; rejected literals must each "
                         "produce a compile error (cargo check --message-format=json, span -> literal)",
                    assumptions=TRUST + ["rustc diagnostics spans (--message-format=json)"])


def c18(tier):
    c = new_check("C18", tier)
    for model, cfg in cfgs("mc/MC_DataUrl", tier, [""]):
        mc_replay(c, model, cfg, "composed data-URL candidates, near misses and all short suffixes after three prefixes")
    return c.finish(rule="strings around the data-URL shape; TLC proves the re-scan and stored-offset formulations agree "
                         "and prints verdict, media type, base64 flag, data and (canonical base64 only) decoded bytes",
                    assumptions=TRUST + ["the base64 crate's treatment of non-canonical padding / trailing bits is not "
                                         "second-guessed (cases marked 'unspecified')"])


PIPELINES = {
    "C18": c18,
    "C17": c17,
    "C13": c13,
    "C14": c14,
    "C15": c15,
    "C16": c16,
    "C04": c04,
    "C05": c05,
    "C10": c10,
    "C11": c11,
    "C19": c19,
    "C06": c06,
    "C07": c07,
    "C08": c08,
    "C09": c09,
    "C12": c12,
    "C01": c01,
    "C02": c02,
    "C03": c03,
    "C20": c20,
}
