"""Per-property pipelines: which TLC models decide a property, which cases go through the
real code, which recorded traces go back to TLC."""
import json
import os

import findings
import vlib
from vlib import Check, log, run_replay, run_tlc


def new_check(pid, tier):
    c = Check(pid, tier)
    c.classifiers = findings.classifiers_for(pid)
    return c


def replay_file(pid, path):
    """Re-run exactly the cases stored in a replay file."""
    blob = json.load(open(path))
    cases = blob.get("cases") or []
    c = new_check(pid, "quick")
    if not cases:
        log("replay file holds a specification-level violation (no implementation case): %s" %
            json.dumps(blob.get("violation"), ensure_ascii=False)[:1000])
        c.violations.append(blob.get("violation"))
        return c.finish()
    p = os.path.join(vlib.WORK, "replay-cases.jsonl")
    os.makedirs(vlib.WORK, exist_ok=True)
    with open(p, "w") as fh:
        for cs in cases:
            fh.write(json.dumps(cs) + "\n")
    rr = run_replay(p, name="replay-file")
    c.add_replay(rr, "replay file")
    c.samples = [vlib.pretty_case(x) for x in cases[:3]]
    c.states = c.transitions = 1
    return c.finish()


# ----------------------------------------------------------------------------------------
# C01  parsing accepts exactly the RFC language
# ----------------------------------------------------------------------------------------

def c01(tier):
    c = new_check("C01", tier)
    meta = vlib.gen_dfa()
    r = run_tlc("mc/MC_LangEq", name="MC_LangEq")
    c.add_tlc(r, "complete product DFA x RFC-regex derivatives, all 20 types, all word lengths")
    c.add_samples(r.cases_path)
    c.extra["dfa"] = {k: {"states": v["states"], "transitions": v["transitions"], "cache": v["cache"]}
                      for k, v in meta.items()}
    if not r.error:
        rr = run_replay(r.cases_path, name="C01-cover")
        c.add_replay(rr, "transition cover of the product automaton through every construction route")
    return c.finish(
        rule="one case per transition of the product automaton (low and high symbol of each cell); "
             "non-trivial = distinct (type, word) pairs",
        assumptions=["RFC 3986/3987 ABNF transcription in spec/Rfc3986Abnf.tla, spec/Rfc3987Abnf.tla",
                     "static-regular-grammar's code generator between the cached DFA and the compiled "
                     "validate() is exercised by a transition cover, not proved",
                     "TLC, CommunityModules Json, tools/aut2tla.py CBOR reader"])


PIPELINES = {
    "C01": c01,
}
