#!/usr/bin/env python3
"""Regenerate /verif/MANIFEST.json from the table below (one source of truth for the
interface).  Properties without a pipeline are listed under not_applicable with a reason."""
import json
import os
import sys

sys.path.insert(0, os.path.dirname(os.path.abspath(__file__)))
ROOT = os.path.dirname(os.path.dirname(os.path.abspath(__file__)))

TRUST = ("Trusted: the RFC transcriptions in spec/*.tla (Rfc3986Abnf, Rfc3987Abnf, Parts, PathOps, Resolve, Pct), TLC and the "
         "CommunityModules Json/IOUtils, rustc/cargo building /repo's working tree, the harness' JSON plumbing. Guarantees "
         "beyond the complete language facts are bounded-exhaustive within the stated vocabularies (DESIGN.md section 6).")


def mc(text, ref, technique, note=TRUST):
    return {"text": text, "design_ref": ref, "note": note, "technique": technique}


CHECKS = {
    "C01": mc(
        "Complete for the language itself: TLC explores the whole product of each cached DFA with the Brzozowski-derivative "
        "automaton of the RFC production (all 20 types, words of every length) and checks equal verdicts in every product "
        "state. The compiled validators and every construction route (new, owned new, TryFrom, FromStr, from_vec, serde "
        "borrowed/owned over str/bytes, serde_json) are bound to that DFA by a transition cover of the product automaton "
        "replayed through the real code, plus every string of bounded length over a boundary alphabet (garbage included). Direction B: random long references, near misses, IPv6/IPv4 shapes and ill-formed UTF-8 byte strings go through the real parsers and the recorded verdicts are judged by TLC (Trace_Events).",
        "DESIGN.md section 6, C01",
        "TLA+ spec + TLC: complete product-automaton model checking (DFA x regex derivatives); TLC-generated "
        "transition-cover and bounded-exhaustive cases replayed into the real parsers",
        "Trusted: transcription of RFC 3986 App. A / RFC 3987 2.2 ABNF; TLC; the CBOR reader tools/aut2tla.py (cross-checked: the "
        "compiled code must reproduce the imported DFA's verdict on the transition cover); static-regular-grammar's DFA->match "
        "code generator is covered, not proved."),
    "C02": mc(
        "TLC enumerates exactly the valid (I)RI-references of bounded length over a delimiter-rich alphabet by walking the "
        "derivative automaton, checks the design theorems of the RFC 3986 section 3 decomposition on each (recomposition, "
        "component membership, scheme <=> full URI) and prints each with its decomposition; the real accessors and parts() of all "
        "four types, borrowed and owned, are compared with it, each returned component re-validated, recomposition = text. Long structured references are composed from component vocabularies (MC_Compose), and the components reported for random long multi-byte references are judged by TLC (direction B).",
        "DESIGN.md section 6, C02", "TLA+ spec + TLC: exhaustive enumeration of the valid language within a bound with the spec "
        "as oracle; cases replayed into the real accessors"),
    "C03": mc(
        "Same scheme on authority / iauthority (IP-literals come out of the automaton by themselves), stand-alone and embedded "
        "in references: user_info/host/port and parts() vs RFC 3986 section 3.2 computed by the spec, parts re-validated, reassembly. Direction B: random authorities drawn from the character classes of section 3.2 (every allowed character next to every delimiter) are read three ways by the real code and judged by TLC with AuthParts.",
        "DESIGN.md section 6, C03", "TLA+ spec + TLC: exhaustive enumeration of valid authorities within a bound; replay"),
    "C04": mc(
        "The editor is a TLA+ state machine (spec/Editor.tla); TLC explores every text reachable within a length bound with "
        "every mutator and argument of the vocabularies, proves the SPECIFIED editor closed under well-formedness, and prints "
        "every edge; each edge is replayed from its source text on both families (no panic, UTF-8, re-parse as the same type). "
        "Handle sessions (hidden window state) are covered as whole behaviours of bounded depth. Direction B: random 30-40 call histories on long multi-byte buffers (with arguments the checked constructors must refuse) and 5-40 call sessions through one handle are recorded from the real code and every call is judged by TLC (Trace_Events, stateful Trace_Sessions).",
        "DESIGN.md section 6, C04", "TLA+ spec + TLC: reachability over the editor state graph; every edge and handle "
        "behaviour replayed into the real mutators"),
    "C05": mc(
        "Setter edges of the same state graph: the spec fixes the resulting text (disambiguations R1-R3 mandatory exactly when "
        "needed); TLC checks on the spec that the three rules are sufficient (result re-parses to the intended record) and the "
        "frame conditions; the real setters must produce a text of the (mostly singleton) admissible set. Direction B: setter calls of random long histories are judged by TLC from the implementation's own previous text. The calls the repository's own tests make are recorded by the hooks compiled into the library (--cfg iref_verif) and validated by the same trace specification.",
        "DESIGN.md section 6, C05", "TLA+ spec + TLC: action-level frame/sufficiency assertions on the model; setter edges replayed"),
    "C06": mc(
        "All (base, reference) pairs of component vocabularies covering every 5.2.2 branch with dot/empty/colon segments, plus "
        "the 42 examples printed in RFC 3986 5.4 (checked by TLC against the spec). TLC checks target has a scheme, validity, "
        "restricted idempotence, and prints the admissible result set (singleton wherever the RFC fixes the text); resolved / "
        "into_resolved / resolve, both families, must agree and lie in it; base unchanged. References beyond 512 bytes and bases with escaped dots are explicit cases; in-place resolve calls of random histories are judged by TLC (direction B). The calls the repository's own tests make are recorded by the hooks compiled into the library (--cfg iref_verif) and validated by the same trace specification.",
        "DESIGN.md section 6, C06", "TLA+ spec + TLC: bounded-exhaustive pairs with the RFC 5.2 operators as oracle; replay"),
    "C07": mc(
        "Values of every comparable type composed from vocabularies built to collide (percent-encoded vs literal, dot segments, "
        "absent vs empty, ill-formed escapes); TLC computes the class key Canon; == / != of ALL pairs of a group (borrowed, owned, "
        "cross-type) must equal 'same key', under catch_unwind (totality). Agreement of the whole matrix with an equivalence "
        "computed by the spec is reflexivity, symmetry and transitivity.",
        "DESIGN.md section 6, C07", "TLA+ spec + TLC: equivalence classes computed by the spec; all-pairs replay"),
    "C08": mc(
        "Same groups: cmp/partial_cmp/hash for all pairs; Equal <=> same key; equal keys => equal hashes; total preorder decided "
        "on the full matrix by a rank certificate; owned vs borrowed; every Borrow view hashes alike; HashSet/BTreeSet lookups. Borrow<DataUrl> for DataUrlBuf (feature `data`) is held to the same contract on every data URL of the C18 model.",
        "DESIGN.md section 6, C08", "TLA+ spec + TLC: class keys from the spec; order/hash laws checked on the complete observed matrix"),
    "C09": mc(
        "All paths of bounded segment count over {'', a, ., .., b:c, %2e, e-acute}: TLC proves Rfc524 = stack walk on every absolute "
        "path, no dots left, admissible renderings exist/keep absoluteness/are fixed points/leave the context's other components; "
        "normalized_segments, normalized() and in-place normalize (stand-alone and in 6 reference contexts) compared with them. Paths beyond 16 segments and beyond 512 bytes are part of the model; paths of 70 kB - 1 MB are judged structurally by TLC (fixed point of normalisation, theorem checked on the bounded model).",
        "DESIGN.md section 6, C09", "TLA+ spec + TLC: exhaustive paths within a bound, theorems on the spec, replay"),
    "C10": mc(
        "Behaviours of one path handle: 6 contexts x initial paths x all call sequences of bounded depth over push/pop/clear/"
        "symbolic_push/symbolic_append/normalize; the model state is the abstract (absoluteness, segment list), each step carries "
        "the admissible views; the handle's Deref after each call and the buffer after drop are compared; behaviours fork where "
        "the abstract value depends on the rendering chosen and a group fails only if every branch fails. Direction B: sessions of 5-40 calls through ONE handle on long multi-byte paths are validated by the stateful trace specification Trace_Sessions, which carries every segment list consistent with the views observed so far.",
        "DESIGN.md section 6, C10", "TLA+ spec + TLC: all behaviours of bounded depth of the handle state machine replayed step by step"),
    "C11": mc(
        "Behaviours of one authority handle with the window modelled in the spec: TLC checks window coherence, validity and frames "
        "after every call; exact handle view, sub-component reads and whole text after each call are compared. Direction B: sessions of 5-40 calls through ONE authority handle (respelled values, user infos beyond any inline buffer) are validated by the stateful trace specification with the window carried in the spec.",
        "DESIGN.md section 6, C11", "TLA+ spec + TLC: all behaviours of bounded depth replayed; window-coherence invariant"),
    "C12": mc(
        "Two-cursor iterator state machine; every interleaving of next/next_back two calls past exhaustion on every path of the "
        "bound, plus all path queries against the '/'-split.",
        "DESIGN.md section 6, C12", "TLA+ spec + TLC: exhaustive interleavings of the iterator state machine replayed"),
    "C13": mc(
        "Complete: L(U) = L(I) /\\ ASCII* for the 9 type pairs and X = X-reference with a scheme (product of derivative "
        "automata). Conversions between the four kinds on every enumerated valid reference; identical results of both families "
        "asserted on every ASCII case of the editor, resolution and comparison models; every URI type is compared with its IRI twin (==, cmp, hash) on all pairs of the comparison groups.",
        "DESIGN.md section 6, C13", "TLA+ spec + TLC: complete product-automaton proofs of the language facts; replay of conversions"),
    "C14": mc(
        "Every textual route out reproduces the text and every route in gives the constructor's verdict, for all 20 types, over "
        "the transition cover and bounded-exhaustive strings of C01; plain-string comparison is text comparison on groups of "
        "equivalent spellings.",
        "DESIGN.md section 6, C14", "TLA+ spec + TLC: TLC-generated words (valid and invalid) replayed through every route"),
    "C15": mc(
        "Direction B: a.relative_to(b) is executed on TLC-enumerated pairs, recorded, and each event judged by TLC "
        "(spec/trace/Trace_Events.tla) with the specification's own resolver and equivalence; TLC also checks satisfiability.",
        "DESIGN.md section 6, C15", "TLA+ spec + TLC: trace validation of recorded calls against the spec's Resolve/Equiv"),
    "C16": mc(
        "suffix(): recorded results judged by TLC (existence, remaining segments, query/fragment) on pairs of paths and URIs; TLC "
        "checks prefix ++ suffix = value. base(): exact text for every enumerated valid reference, valid, no query/fragment.",
        "DESIGN.md section 6, C16", "TLA+ spec + TLC: trace validation of recorded suffix calls; exhaustive replay for base"),
    "C17": mc(
        "One macro invocation per TLC-generated literal (escape-rich alphabet + composed literals): accepted literals are compiled "
        "into statics whose text, components and equality with the run-time parse are inspected; each rejected literal must "
        "produce a compile error attributed to its span. One representative of every character class (Unicode white space, BOM, range ends, non-characters, private use) is placed in every component (spec/Rare.tla).",
        "DESIGN.md section 6, C17", "TLA+ spec + TLC: TLC-generated programs (literals with verdict and components) compiled and run"),
    "C18": mc(
        "Strings around the data-URL shape; TLC proves the re-scan and stored-offset formulations agree on every accepted string "
        "and prints verdict/media type/flag/data/decoded bytes; borrowed and owned constructors and views compared.",
        "DESIGN.md section 6, C18", "TLA+ spec + TLC: two formulations proved equal on the model; replay"),
    "C19": mc(
        "Component texts over a token alphabet containing every class of Unicode Table 3-7; decoded octets always, characters when "
        "well-formed, no panic, ill-formed never equal to text; each component is also reached through the accessors of an enclosing URI/IRI; segments of up to 1.2 MB of escapes are viewed before and after resolution (judged structurally by TLC).",
        "DESIGN.md section 6, C19", "TLA+ spec + TLC: bounded-exhaustive token strings with Pct/Utf8 spec as oracle; replay"),
    "C20": mc(
        "Byte ranges of every component computed by spec/Ranges.tla (ordered, disjoint, inside the input: checked by TLC) vs "
        "pointer offsets of the returned slices, allocation delta 0 (counting allocator) for parse + accessors + iteration. Paths and iterators (up to 33 segments) and inputs of up to 1 MB are included: allocation delta 0 and ranges tiling the input, judged by TLC structurally.",
        "DESIGN.md section 6, C20", "TLA+ spec + TLC: ranges from the spec on every enumerated text; pointer/alloc observations replayed",
        TRUST + " The counting #[global_allocator] of the harness."),
}

PENDING = {}


def main():
    props = [json.loads(l) for l in open(os.path.join(ROOT, "properties.jsonl"))]
    checks = []
    na = []
    for p in props:
        pid = p["id"]
        if pid in CHECKS:
            c = CHECKS[pid]
            checks.append({
                "property_id": pid,
                "quick_cmd": "./check %s --tier quick" % pid,
                "thorough_cmd": "./check %s --tier thorough" % pid,
                "evidence_file": "/verif/evidence/%s.json" % pid,
                "replay_cmd_template": "./check %s --replay {path}" % pid,
                "engine": "tla-tlc-conformance",
                "level_claimed": {"category": c.get("category", "model_checking"), "text": c["text"],
                                  "design_ref": c["design_ref"]},
                "level_note": c["note"],
                "technique": c["technique"],
            })
        else:
            na.append({"property_id": pid,
                       "reason": PENDING.get(pid, "not claimed yet: the TLA+ model and conformance check for this "
                                                  "property are still under construction (see DESIGN.md build order)")})
    man = {
        "version": 1,
        "setup_cmd": "./check setup",
        "hooks": {
            "guard": "iref_verif",
            "enable": "RUSTFLAGS='--cfg iref_verif' (set in /verif/harness/.cargo/config.toml for the harness, and by "
                      "tools/vlib.py:run_suite_trace for `cargo test --workspace` of /repo with IREF_VERIF_TRACE=<file>): "
                      "crates/core/src/verif_trace.rs records every outermost mutating call (operation, buffer before, "
                      "argument, buffer after); the recorded calls of the repository's own tests are validated by "
                      "spec/trace/Trace_Events.tla",
            "baseline_off_cmd": "cd /repo && cargo test --workspace --no-fail-fast --offline",
            "source_commits": ["dc5c731", "c62a6ac", "626131d"],
            "add_only": True,
        },
        "engines": [{
            "name": "tla-tlc-conformance",
            "path": "/verif/check",
            "serves_properties": [c["property_id"] for c in checks],
            "kind_free_text": "explicit TLA+ specification (spec/*.tla) model-checked with TLC; TLC-computed cases "
                              "replayed into the real crate by a Rust harness (harness/), traces recorded from the "
                              "real crate validated by TLC trace specifications (spec/trace/)",
        }],
        "checks": checks,
        "not_applicable": na,
        "notes": "All checks rebuild the harness (path dependency on /repo) from /repo's working tree on every run, "
                 "re-import the cached DFAs after the build, and write /verif/evidence/<id>.json. Exit 2 = tool error.",
    }
    with open(os.path.join(ROOT, "MANIFEST.json"), "w") as fh:
        json.dump(man, fh, indent=1)
        fh.write("\n")
    print("MANIFEST.json: %d checks, %d not claimed" % (len(checks), len(na)))


if __name__ == "__main__":
    main()
