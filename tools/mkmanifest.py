#!/usr/bin/env python3
"""Regenerate /verif/MANIFEST.json from the table below (one source of truth for the
interface).  Properties without a pipeline are listed under not_applicable with a reason."""
import json
import os
import sys

sys.path.insert(0, os.path.dirname(os.path.abspath(__file__)))
ROOT = os.path.dirname(os.path.dirname(os.path.abspath(__file__)))

CHECKS = {
    "C01": {
        "text": "Complete for the language itself: TLC explores the whole product of each cached DFA with the "
                "Brzozowski-derivative automaton of the RFC production (all 20 types, words of every length) and "
                "checks equal verdicts in every product state. The compiled validators and every construction route "
                "(new, owned new, TryFrom, FromStr, from_vec, serde borrowed/owned over str/bytes, serde_json) are "
                "bound to that DFA by a transition cover of the product automaton replayed through the real code, "
                "plus bounded-exhaustive strings and random trace validation.",
        "design_ref": "DESIGN.md section 6, C01",
        "note": "Trusted: transcription of RFC 3986 App. A / RFC 3987 2.2 ABNF in spec/Rfc398[67]Abnf.tla; TLC; "
                "the CBOR reader tools/aut2tla.py (cross-checked: compiled code must reproduce the imported DFA's "
                "verdict on the transition cover); static-regular-grammar's DFA->match code generator is covered, "
                "not proved.",
        "technique": "TLA+ spec + TLC: complete product-automaton model checking (DFA x regex derivatives), "
                     "TLC-generated transition-cover cases replayed into the real parsers",
    },
}

PENDING = {}


def main():
    props = [json.loads(l) for l in open(os.path.join(ROOT, "properties.jsonl"))]
    checks = []
    na = []
    for p in props:
        pid = p["id"]
        if pid in CHECKS:
            c = CHECKS[pid]
            checks.append({
                "property_id": pid,
                "quick_cmd": "./check %s --tier quick" % pid,
                "thorough_cmd": "./check %s --tier thorough" % pid,
                "evidence_file": "/verif/evidence/%s.json" % pid,
                "replay_cmd_template": "./check %s --replay {path}" % pid,
                "engine": "tla-tlc-conformance",
                "level_claimed": {"category": c.get("category", "model_checking"), "text": c["text"],
                                  "design_ref": c["design_ref"]},
                "level_note": c["note"],
                "technique": c["technique"],
            })
        else:
            na.append({"property_id": pid,
                       "reason": PENDING.get(pid, "not claimed yet: the TLA+ model and conformance check for this "
                                                  "property are still under construction (see DESIGN.md build order)")})
    man = {
        "version": 1,
        "setup_cmd": "./check setup",
        "hooks": {
            "guard": "iref_verif",
            "enable": "RUSTFLAGS='--cfg iref_verif' (set in /verif/harness/.cargo/config.toml); no source hook is "
                      "needed so far: the public API exposes the whole abstract state",
            "baseline_off_cmd": "cd /repo && cargo test --workspace --no-fail-fast --offline",
            "source_commits": [],
            "add_only": True,
        },
        "engines": [{
            "name": "tla-tlc-conformance",
            "path": "/verif/check",
            "serves_properties": [c["property_id"] for c in checks],
            "kind_free_text": "explicit TLA+ specification (spec/*.tla) model-checked with TLC; TLC-computed cases "
                              "replayed into the real crate by a Rust harness (harness/), traces recorded from the "
                              "real crate validated by TLC trace specifications (spec/trace/)",
        }],
        "checks": checks,
        "not_applicable": na,
        "notes": "All checks rebuild the harness (path dependency on /repo) from /repo's working tree on every run, "
                 "re-import the cached DFAs after the build, and write /verif/evidence/<id>.json. Exit 2 = tool error.",
    }
    with open(os.path.join(ROOT, "MANIFEST.json"), "w") as fh:
        json.dump(man, fh, indent=1)
        fh.write("\n")
    print("MANIFEST.json: %d checks, %d not claimed" % (len(checks), len(na)))


if __name__ == "__main__":
    main()
