#!/usr/bin/env python3
"""Soak the oracle: the random drivers with many seeds, every recorded call validated by the trace
specifications, anything that is neither conforming nor a listed known finding printed.

  soak.py <first-seed> <last-seed> [edit|sessions|parse ...]

Not a registered check: it is how the specification itself is tested for false alarms (a
non-conforming event on the unchanged tree is either a defect of the library or of the
specification, and has to be looked at either way).  Exit 0 when nothing unexplained was seen."""
import json
import os
import sys

sys.path.insert(0, os.path.dirname(os.path.abspath(__file__)))
import vlib    # noqa: E402
import findings    # noqa: E402,F401  (registers the classifiers)


def explained(check, ev, fail):
    for finding, pred in check.classifiers:
        try:
            if pred(ev, fail):
                return finding["id"]
        except Exception:
            pass
    return None


def main():
    lo, hi = int(sys.argv[1]), int(sys.argv[2])
    kinds = sys.argv[3:] or ["edit", "sessions", "parse"]
    vlib.ensure_build()
    vlib.gen_dfa()
    probe = vlib.Check("C04", "quick")      # only a holder of every classifier of the known findings
    probe.classifiers = [(f, findings.PREDICATES[f["id"]]) for f in vlib.load_findings().get("findings", [])
                         if f["id"] in findings.PREDICATES]
    unexplained = 0
    for seed in range(lo, hi + 1):
        os.environ["VERIF_SEED"] = str(seed)
        runs = []
        if "edit" in kinds:
            ev = vlib.run_drive("soak-edit", 1000, 30)
            n, bad, _ = vlib.run_trace(ev, name="soak-edit")
            runs.append(("edit", n, bad, vlib.LAST_DRIVE_CRASH.get(ev)))
        if "sessions" in kinds:
            ev = vlib.run_drive_sessions("soak-sessions", 300)
            n, bad, _ = vlib.run_trace_sessions(ev, "soak-sessions")
            runs.append(("sessions", n, bad, vlib.LAST_DRIVE_CRASH.get(ev)))
        if "parse" in kinds:
            ev = vlib.run_drive_parse("soak-parse", 6000)
            n, bad, _ = vlib.run_trace(ev, name="soak-parse")
            runs.append(("parse", n, bad, None))
        for kind, n, bad, crash in runs:
            known = {}
            for b in bad:
                e = b["event"]
                fail = {"what": "trace.nonconforming.%s.%s" % (e.get("ev"), b.get("why", "")), "props": []}
                if b.get("expected"):
                    fail["expected_one_of"] = [vlib.as_text(x) if x else "" for x in b["expected"]]
                    obs = e.get("post") if "post" in e else e.get("view")
                    fail["observed"] = vlib.as_text(obs) if obs else ""
                k = explained(probe, e, fail)
                if k:
                    known[k] = known.get(k, 0) + 1
                else:
                    unexplained += 1
                    print("UNEXPLAINED seed=%d %s: %s" % (seed, kind, json.dumps(b, ensure_ascii=False)[:1500]))
            if crash:
                unexplained += 1
                print("UNEXPLAINED seed=%d %s: the driver died in %s" % (seed, kind, json.dumps(crash)[:800]))
            print("seed %d %-8s %7d events, %d non-conforming, known: %s" % (seed, kind, n, len(bad), known or "-"))
        sys.stdout.flush()
    print("soak: %d unexplained" % unexplained)
    return 1 if unexplained else 0


if __name__ == "__main__":
    sys.exit(main())
