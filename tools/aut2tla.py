#!/usr/bin/env python3
"""Read the cached DFAs of iref (crates/core/automata/**/*.aut.cbor) and emit them as a
TLA+ constants module (spec/gen/Dfa.tla).

The type -> cache file map is taken from the #[grammar(... cache = ...)] attributes in the
sources, so a `cache =` pointing at the wrong file is what gets modelled.

Minimal CBOR reader (major types 0-5 + simple values), enough for serde_cbor/ciborium output.
"""
import hashlib
import json
import os
import re
import sys


def cbor_load(b):
    pos = 0

    def head():
        nonlocal pos
        ib = b[pos]
        pos += 1
        mt, ai = ib >> 5, ib & 31
        if ai < 24:
            return mt, ai
        if ai in (24, 25, 26, 27):
            n = 1 << (ai - 24)
            v = int.from_bytes(b[pos:pos + n], "big")
            pos += n
            return mt, v
        if ai == 31:
            return mt, None
        raise ValueError("bad cbor additional info %d" % ai)

    def item():
        nonlocal pos
        mt, v = head()
        if mt == 0:
            return v
        if mt == 1:
            return -1 - v
        if mt in (2, 3):
            if v is None:
                chunks = []
                while b[pos] != 0xFF:
                    chunks.append(item())
                pos += 1
                return (b"" if mt == 2 else "").join(chunks)
            s = b[pos:pos + v]
            pos += v
            return bytes(s) if mt == 2 else s.decode("utf-8")
        if mt == 4:
            out = []
            if v is None:
                while b[pos] != 0xFF:
                    out.append(item())
                pos += 1
            else:
                for _ in range(v):
                    out.append(item())
            return out
        if mt == 5:
            out = []
            if v is None:
                while b[pos] != 0xFF:
                    k = item()
                    out.append((k, item()))
                pos += 1
            else:
                for _ in range(v):
                    k = item()
                    out.append((k, item()))
            return out  # list of pairs: keys may be unhashable
        if mt == 6:
            return item()
        if mt == 7:
            if v == 20:
                return False
            if v == 21:
                return True
            if v in (22, 23):
                return None
            return v
        raise ValueError("bad cbor major type")

    r = item()
    if pos != len(b):
        raise ValueError("trailing bytes in cbor")
    return r


def as_map(pairs):
    return {k: v for k, v in pairs}


def tok(v):
    """A token is a char (cbor text of one scalar) or a byte (int)."""
    if isinstance(v, str):
        assert len(v) == 1, v
        return ord(v)
    return int(v)


def bound_lo(bd):
    # {"Included": v} | {"Excluded": v} | "Unbounded"
    if isinstance(bd, str):
        assert bd == "Unbounded"
        return 0
    (k, v), = bd
    v = tok(v)
    return v if k == "Included" else succ(v)


def bound_hi(bd, is_char):
    if isinstance(bd, str):
        assert bd == "Unbounded"
        return 0x10FFFF if is_char else 255
    (k, v), = bd
    v = tok(v)
    return v if k == "Included" else pred(v)


def succ(v):
    v += 1
    if 0xD800 <= v <= 0xDFFF:
        v = 0xE000
    return v


def pred(v):
    v -= 1
    if 0xD800 <= v <= 0xDFFF:
        v = 0xD7FF
    return v


def load_automaton(path):
    raw = open(path, "rb").read()
    top = as_map(cbor_load(raw))
    aut = as_map(top["automaton"])
    init = aut["initial_state"]
    finals = sorted(aut["final_states"])
    trans = []  # (q, lo, hi, q2)
    is_char = False
    for q, edges in aut["transitions"]:
        for label, q2 in edges:
            # label: list of ranges; each range = [lo_bound, hi_bound]
            for rng in label:
                lo_b, hi_b = rng
                if any(isinstance(x, list) and isinstance(x[0][1], str) for x in (lo_b, hi_b)):
                    is_char = True
    for q, edges in aut["transitions"]:
        for label, q2 in edges:
            for rng in label:
                lo_b, hi_b = rng
                lo = bound_lo(lo_b)
                hi = bound_hi(hi_b, is_char)
                if lo <= hi:
                    trans.append((q, lo, hi, q2))
    grammar_hash = bytes(top["hash"]).hex() if "hash" in top else ""
    return {"init": init, "finals": finals, "trans": trans, "is_char": is_char,
            "hash": grammar_hash, "sha256": hashlib.sha256(raw).hexdigest()}


GRAMMAR_RE = re.compile(r"#\[grammar\((.*?)\)\]\s*(?:#\[[^\]]*\]\s*)*pub struct (\w+)\((\[u8\]|str)\)", re.S)


def type_table(repo):
    """[(type name, family, entry point, cache path, token type)] from the sources."""
    out = []
    core = os.path.join(repo, "crates/core")
    for fam in ("uri", "iri"):
        base = os.path.join(core, "src", fam)
        for root, _, files in os.walk(base):
            for f in sorted(files):
                if not f.endswith(".rs"):
                    continue
                src = open(os.path.join(root, f)).read()
                for m in re.finditer(r"#\[derive\(RegularGrammar[^\]]*\]\s*((?:#\[[^\]]*\]\s*)+)pub struct (\w+)\((\[u8\]|str)\)", src):
                    attrs, name, tokty = m.group(1), m.group(2), m.group(3)
                    ep = re.search(r'entry_point\s*=\s*"([^"]+)"', attrs)
                    cache = re.search(r'cache\s*=\s*"([^"]+)"', attrs)
                    if not ep or not cache:
                        continue
                    out.append({"name": name, "family": fam, "entry": ep.group(1),
                                "cache": os.path.join(core, cache.group(1)),
                                "tok": "byte" if tokty == "[u8]" else "char"})
    return out


# harness type tags, by (family, struct name)
TAGS = {
    ("uri", "Uri"): "Uri", ("uri", "UriRef"): "UriRef", ("uri", "Scheme"): "Scheme",
    ("uri", "Authority"): "UAuthority", ("uri", "UserInfo"): "UUserInfo", ("uri", "Host"): "UHost",
    ("uri", "Port"): "Port", ("uri", "Path"): "UPath", ("uri", "Segment"): "USegment",
    ("uri", "Query"): "UQuery", ("uri", "Fragment"): "UFragment",
    ("iri", "Iri"): "Iri", ("iri", "IriRef"): "IriRef",
    ("iri", "Authority"): "IAuthority", ("iri", "UserInfo"): "IUserInfo", ("iri", "Host"): "IHost",
    ("iri", "Path"): "IPath", ("iri", "Segment"): "ISegment",
    ("iri", "Query"): "IQuery", ("iri", "Fragment"): "IFragment",
}


def main():
    repo = sys.argv[1]
    out = sys.argv[2]
    table = type_table(repo)
    seen = {}
    lines = []
    lines.append("---------------------------- MODULE Dfa ----------------------------")
    lines.append("(* GENERATED by tools/aut2tla.py from %s/crates/core/automata -- do not edit. *)" % repo)
    lines.append("EXTENDS Integers, Sequences")
    meta = {}
    tags = []
    for t in table:
        tag = TAGS.get((t["family"], t["name"]))
        if tag is None:
            raise SystemExit("unknown grammar type %s/%s" % (t["family"], t["name"]))
        if tag in seen:
            raise SystemExit("duplicate type %s" % tag)
        a = load_automaton(t["cache"])
        if (t["tok"] == "char") != a["is_char"] and a["trans"]:
            # a byte automaton for a str type (or the reverse): model what is there
            pass
        seen[tag] = a
        tags.append(tag)
        meta[tag] = {"entry": t["entry"], "cache": os.path.relpath(t["cache"], repo), "tok": t["tok"],
                     "states": len({q for q, _, _, _ in a["trans"]} | {q2 for _, _, _, q2 in a["trans"]} | {a["init"]}),
                     "transitions": len(a["trans"]), "sha256": a["sha256"], "grammar_hash": a["hash"]}
    lines.append("DfaTypes == {%s}" % ", ".join('"%s"' % t for t in tags))
    lines.append("DfaInit == [t \\in DfaTypes |-> CASE " +
                 " [] ".join('t = "%s" -> %d' % (t, seen[t]["init"]) for t in tags) + "]")
    lines.append("DfaFinal == [t \\in DfaTypes |-> CASE " +
                 " [] ".join('t = "%s" -> {%s}' % (t, ", ".join(map(str, seen[t]["finals"]))) for t in tags) + "]")
    lines.append("DfaTok == [t \\in DfaTypes |-> CASE " +
                 " [] ".join('t = "%s" -> "%s"' % (t, meta[t]["tok"]) for t in tags) + "]")
    # transitions: per type a function state -> sequence of <<lo,hi,q2>>
    for t in tags:
        a = seen[t]
        by = {}
        for q, lo, hi, q2 in a["trans"]:
            by.setdefault(q, []).append((lo, hi, q2))
        states = sorted(set(by) | {a["init"]} | set(a["finals"]) | {q2 for _, _, _, q2 in a["trans"]})
        parts = []
        for q in states:
            es = sorted(by.get(q, []))
            parts.append("%d :> <<%s>>" % (q, ", ".join("<<%d,%d,%d>>" % e for e in es)))
        lines.append("DfaTrans_%s == %s" % (t, " @@ ".join(parts)))
        cuts = sorted({lo for _, lo, _, _ in a["trans"]} | {hi + 1 for _, _, hi, _ in a["trans"]})
        lines.append("DfaCuts_%s == {%s}" % (t, ", ".join(map(str, cuts))))
    lines.append("DfaTrans(t) == CASE " + " [] ".join('t = "%s" -> DfaTrans_%s' % (t, t) for t in tags))
    lines.append("DfaCuts(t) == CASE " + " [] ".join('t = "%s" -> DfaCuts_%s' % (t, t) for t in tags))
    lines.append("=" * 70)
    # TLC module needs :> and @@ -> EXTENDS TLC
    lines[2] = "EXTENDS Integers, Sequences, TLC"
    os.makedirs(os.path.dirname(out), exist_ok=True)
    with open(out, "w") as f:
        f.write("\n".join(lines) + "\n")
    with open(os.path.splitext(out)[0] + ".meta.json", "w") as f:
        json.dump(meta, f, indent=1, sort_keys=True)
    print("wrote %s: %d types, %d transitions" % (out, len(tags), sum(len(seen[t]["trans"]) for t in tags)))


if __name__ == "__main__":
    main()
