"""Classifiers of the known findings listed in /verif/known_findings.json.

The JSON file is the committed list (id, property, summary, example); this module holds, per
id, the narrow predicate that recognises a failed comparison as that finding.  A failure of
the same property that no listed classifier recognises is reported as a VIOLATION.
Nothing here is written at run time.
"""
import vlib

PREDICATES = {}


def classifier(fid):
    def deco(fn):
        PREDICATES[fid] = fn
        return fn
    return deco


def classifiers_for(pid):
    out = []
    for f in vlib.load_findings().get("findings", []):
        if pid in f.get("properties", [f.get("property")]) and f["id"] in PREDICATES:
            out.append((f, PREDICATES[f["id"]]))
    return out


# ----------------------------------------------------------------------------------------
def _t(v):
    return "".join(chr(x) for x in v)


def _split(w):
    """(scheme, authority, path, rest) of a reference text (RFC 3986 appendix B)."""
    rest = ""
    for d in "?#":
        i = w.find(d)
        if i >= 0:
            w, rest = w[:i], w[i:] + rest if False else w[i:]
            break
    scheme = None
    i = w.find(":")
    if i > 0 and "/" not in w[:i]:
        scheme, w = w[:i], w[i + 1:]
    auth = None
    if w.startswith("//"):
        r = w[2:]
        j = r.find("/")
        auth, w = (r, "") if j < 0 else (r[:j], r[j:])
    return scheme, auth, w, rest


def _collapse(w):
    s, a, p, rest = _split(w)
    while "//" in p:
        p = p.replace("//", "/")
    # a leading "." shield in front of a collapsed empty segment
    for pre in ("/./", "./"):
        if p.startswith(pre):
            p = p[len(pre) - 1:] if pre == "/./" else p[2:]
    return (s, a, p.rstrip("/") or p[:1], rest)


@classifier("resolve-merge-loses-empty-segments")
def _merge_empty(case, fail):
    if case.get("k") == "resolve":
        ref = _t(case["ref"])
    elif (case.get("k") == "edit" or case.get("ev") == "edit") and case.get("op") == "resolve":
        ref = _t(case["pre"])
    else:
        return False
    s, a, p, _ = _split(ref)
    if s is not None or a is not None or p == "" or p.startswith("/"):
        return False            # not the merge branch
    if "expected_one_of" not in fail:
        if fail.get("what") in ("all_entry_points_agree", "families_agree"):
            return False
        return False
    obs = fail["observed"]
    return any(_collapse(obs) == _collapse(e) and len(obs) < len(e) for e in fail["expected_one_of"])


@classifier("pct-str-view-panics-on-ill-formed-utf8")
def _pct_panic(case, fail):
    return (case.get("k") == "pct" and case.get("utf8") is False and "panic" in fail
            and "pct-str" in str(fail.get("panic"))
            and fail.get("what", "").split(".")[-1] in ("chars", "len", "decode", "eq_str"))


def _has_overlong(b):
    """an overlong UTF-8 sequence: C0/C1 lead, E0 followed by 80..9F, F0 followed by 80..8F"""
    for i, x in enumerate(b):
        nxt = b[i + 1] if i + 1 < len(b) else None
        if x in (0xC0, 0xC1):
            return True
        if x == 0xE0 and nxt is not None and 0x80 <= nxt <= 0x9F:
            return True
        if x == 0xF0 and nxt is not None and 0x80 <= nxt <= 0x8F:
            return True
    return False


@classifier("pct-str-overlong-equated")
def _pct_overlong(case, fail):
    b = case.get("bytes") or []
    return (case.get("k") == "pct" and case.get("utf8") is False and fail.get("what") == "illformed.eq_str"
            and fail.get("observed") is True and _has_overlong(b))


@classifier("symbolic-push-skips-empty-segment-on-empty-path")
def _sym_skip(case, fail):
    """symbolic_push / symbolic_append: an empty segment pushed while the path is empty is dropped."""
    op = case.get("op")
    if op not in ("sym_push", "sym_append"):
        return False
    segs = [case.get("arg")] if op == "sym_push" else (case.get("args") or [])
    if not any(x == [] or x == "" for x in segs):
        return False
    if "expected_one_of" not in fail or "observed" not in fail:
        return False

    def norm(p):
        while "//" in p:
            p = p.replace("//", "/")
        if p.startswith("./"):
            p = p[2:]
        if p.startswith("/./"):
            p = p[2:]
        return p
    obs = fail["observed"] or ""
    return any(norm(obs) == norm(e or "") and len(obs) < len(e or "") for e in fail["expected_one_of"])
