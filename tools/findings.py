"""Classifiers of the known findings listed in /verif/known_findings.json.

The JSON file is the committed list (id, property, summary, example); this module holds, per
id, the narrow predicate that recognises a failed comparison as that finding.  A failure of
the same property that no listed classifier recognises is reported as a VIOLATION.
Nothing here is written at run time.
"""
import vlib

PREDICATES = {}


def classifier(fid):
    def deco(fn):
        PREDICATES[fid] = fn
        return fn
    return deco


def classifiers_for(pid):
    out = []
    for f in vlib.load_findings().get("findings", []):
        if pid in f.get("properties", [f.get("property")]) and f["id"] in PREDICATES:
            out.append((f, PREDICATES[f["id"]]))
    return out
