"""Classifiers of the known findings listed in /verif/known_findings.json.

The JSON file is the committed list (id, property, summary, example); this module holds, per
id, the narrow predicate that recognises a failed comparison as that finding.  A failure of
the same property that no listed classifier recognises is reported as a VIOLATION.
Nothing here is written at run time.
"""
import vlib

PREDICATES = {}


def classifier(fid):
    def deco(fn):
        PREDICATES[fid] = fn
        return fn
    return deco


def classifiers_for(pid):
    out = []
    for f in vlib.load_findings().get("findings", []):
        if pid in f.get("properties", [f.get("property")]) and f["id"] in PREDICATES:
            out.append((f, PREDICATES[f["id"]]))
    return out


# ----------------------------------------------------------------------------------------
def _t(v):
    return "".join(chr(x) for x in v)


def _split(w):
    """(scheme, authority, path, rest) of a reference text (RFC 3986 appendix B)."""
    rest = ""
    for d in "?#":
        i = w.find(d)
        if i >= 0:
            w, rest = w[:i], w[i:] + rest if False else w[i:]
            break
    scheme = None
    i = w.find(":")
    if i > 0 and "/" not in w[:i]:
        scheme, w = w[:i], w[i + 1:]
    auth = None
    if w.startswith("//"):
        r = w[2:]
        j = r.find("/")
        auth, w = (r, "") if j < 0 else (r[:j], r[j:])
    return scheme, auth, w, rest


def _collapse(w):
    """The reference with the empty pieces of its path (and a leading "." shield) taken out."""
    s, a, p, rest = _split(w)
    pieces = [x for x in p.split("/") if x != ""]
    if pieces and pieces[0] == ".":
        pieces = pieces[1:]     # in a resolved text a first "." segment can only be a shield
    return (s, a, tuple(pieces), rest)


def _merged(base, ref):
    """RFC 3986 5.2.3 on the texts."""
    _, ba, bp, _ = _split(base)
    _, _, rp, _ = _split(ref)
    if ba is not None and bp == "":
        return "/" + rp
    return bp[:bp.rfind("/") + 1] + rp


@classifier("resolve-merge-loses-empty-segments")
def _merge_empty(case, fail):
    """Identified by: the reference takes the merge branch of 5.2.2 (no scheme, no authority, non-empty
    relative path), the merged path of 5.2.3 holds an empty segment ("//"), and what was observed is one
    of the expected texts with empty segments of its path missing (nothing else differs)."""
    if case.get("k") == "resolve":
        ref, base = _t(case["ref"]), _t(case["base"])
    elif (case.get("k") == "edit" or case.get("ev") == "edit") and case.get("op") == "resolve":
        ref, base = _t(case["pre"]), _t(case["arg"])
    else:
        return False
    s, a, p, _ = _split(ref)
    if s is not None or a is not None or p == "" or p.startswith("/"):
        return False            # not the merge branch
    if "expected_one_of" not in fail or "//" not in _merged(base, ref):
        return False
    obs = fail["observed"]
    if any(_collapse(obs) == _collapse(e) and len(obs) < len(e) for e in fail["expected_one_of"]):
        return True
    # ... or it is what 5.2.4 gives when an empty segment cannot be appended to an empty buffer (a ".."
    # that should have removed that empty segment then removes its neighbour, or is kept)
    so, ao, po, ro = _split(obs)
    if not any((so, ao, ro) == (lambda x: (x[0], x[1], x[3]))(_split(e)) for e in fail["expected_one_of"]):
        return False
    m = _merged(base, ref)
    absolute = m.startswith("/") or _split(base)[1] is not None
    stack = []
    segs = m.split("/")
    for seg in (segs[1:] if m.startswith("/") else segs):
        if seg == ".":
            continue
        if seg == "":
            if stack:
                stack.append("")    # an empty segment is only lost where the buffer is empty
            continue
        if seg == "..":
            if stack and stack[-1] != "..":
                stack.pop()
            elif not absolute:
                stack.append("..")
        else:
            stack.append(seg)
    return _collapse(obs)[2] == tuple(x for x in stack if x != "")


@classifier("pct-str-view-panics-on-ill-formed-utf8")
def _pct_panic(case, fail):
    return (case.get("k") == "pct" and case.get("utf8") is False and "panic" in fail
            and "pct-str" in str(fail.get("panic"))
            and fail.get("what", "").split(".")[-1] in ("chars", "len", "decode", "eq_str"))


def _has_overlong(b):
    """an overlong UTF-8 sequence: C0/C1 lead, E0 followed by 80..9F, F0 followed by 80..8F"""
    for i, x in enumerate(b):
        nxt = b[i + 1] if i + 1 < len(b) else None
        if x in (0xC0, 0xC1):
            return True
        if x == 0xE0 and nxt is not None and 0x80 <= nxt <= 0x9F:
            return True
        if x == 0xF0 and nxt is not None and 0x80 <= nxt <= 0x8F:
            return True
    return False


@classifier("pct-str-overlong-equated")
def _pct_overlong(case, fail):
    b = case.get("bytes") or []
    return (case.get("k") == "pct" and case.get("utf8") is False and fail.get("what") == "illformed.eq_str"
            and fail.get("observed") is True and _has_overlong(b))


@classifier("symbolic-push-skips-empty-segment-on-empty-path")
def _sym_skip(case, fail):
    """symbolic_push / symbolic_append: an empty segment pushed while the path is empty is dropped."""
    op = case.get("op")
    if op not in ("sym_push", "sym_append"):
        return False
    segs = [case.get("arg")] if op == "sym_push" else (case.get("args") or [])
    if not any(x == [] or x == "" for x in segs):
        return False
    if "expected_one_of" not in fail or "observed" not in fail:
        return False

    def norm(p):
        while "//" in p:
            p = p.replace("//", "/")
        if p.startswith("./"):
            p = p[2:]
        if p.startswith("/./"):
            p = p[2:]
        return p
    obs = fail["observed"] or ""
    return any(norm(obs) == norm(e or "") and len(obs) < len(e or "") for e in fail["expected_one_of"])
