#!/usr/bin/env python3
"""Seeded-change bookkeeping.

  seed.py verify <src-dir> <name> <property> [<worktree>]
        confirm in a scratch worktree that the change compiles, the existing suite passes with
        it, the demonstration fails with it and passes without it; then keep it as
        /verif/seeded/<name>/{patch.diff, demo.rs, README.md, meta.json}
  seed.py run <name> [<check-id> ...]
        apply the change to /repo, run the checks (default: the property it breaks), undo it
        straight afterwards; record the outcome in meta.json
"""
import json
import os
import shutil
import subprocess
import sys
import time

ROOT = os.path.dirname(os.path.dirname(os.path.abspath(__file__)))
SEEDED = os.path.join(ROOT, "seeded")
REPO = "/repo"


def sh(cmd, cwd=None, timeout=3600, env=None):
    r = subprocess.run(cmd, cwd=cwd, stdout=subprocess.PIPE, stderr=subprocess.STDOUT, timeout=timeout, env=env)
    return r.returncode, r.stdout.decode(errors="replace")


def verify(src, name, prop, wt):
    head = subprocess.check_output(["git", "-C", REPO, "rev-parse", "HEAD"]).decode().strip()
    sh(["git", "checkout", "-q", "--detach", head], cwd=wt)
    sh(["git", "checkout", "--", "."], cwd=wt)
    tests = os.path.join(wt, "tests")
    os.makedirs(tests, exist_ok=True)
    demo = os.path.join(tests, "demo.rs")
    shutil.copy(os.path.join(src, "demo.rs"), demo)
    shutil.copy(os.path.join(REPO, "Cargo.lock"), os.path.join(wt, "Cargo.lock"))
    out = {"property": prop, "repo_head": head}
    try:
        rc, log = sh(["cargo", "test", "--offline", "--features", "serde,data,macros", "--test", "demo"], cwd=wt)
        out["demo_on_clean_tree"] = "pass" if rc == 0 else "FAIL"
        rc, log = sh(["git", "apply", "--check", os.path.join(src, "patch.diff")], cwd=wt)
        if rc != 0:
            out["applies"] = False
            print(json.dumps(out, indent=1), log[-800:])
            return False
        sh(["git", "apply", os.path.join(src, "patch.diff")], cwd=wt)
        # cargo does not track grammar.abnf / *.aut.cbor: force the grammar macro to run again
        os.utime(os.path.join(wt, "crates/core/src/lib.rs"))
        os.remove(demo)
        rc, log = sh(["cargo", "test", "--workspace", "--offline"], cwd=wt)
        out["suite_with_change"] = "pass" if rc == 0 else "FAIL"
        shutil.copy(os.path.join(src, "demo.rs"), demo)
        rc, log = sh(["cargo", "test", "--offline", "--features", "serde,data,macros", "--test", "demo"], cwd=wt)
        out["demo_with_change"] = "fail" if rc != 0 else "PASSES"
    finally:
        if os.path.exists(demo):
            os.remove(demo)
        try:
            os.rmdir(tests)
        except OSError:
            pass
        sh(["git", "checkout", "--", "."], cwd=wt)
        sh(["git", "clean", "-fdq", "crates/core/automata"], cwd=wt)
        os.utime(os.path.join(wt, "crates/core/src/lib.rs"))
    ok = (out.get("demo_on_clean_tree") == "pass" and out.get("suite_with_change") == "pass"
          and out.get("demo_with_change") == "fail")
    print(json.dumps(out, indent=1))
    if ok:
        dst = os.path.join(SEEDED, name)
        os.makedirs(dst, exist_ok=True)
        for f in ("patch.diff", "demo.rs", "README.md"):
            if os.path.exists(os.path.join(src, f)) and os.path.abspath(src) != os.path.abspath(dst):
                shutil.copy(os.path.join(src, f), os.path.join(dst, f))
        keep = {}
        if os.path.exists(os.path.join(dst, "meta.json")):
            old_meta = json.load(open(os.path.join(dst, "meta.json")))
            keep = {k: old_meta[k] for k in ("what", "needs", "detected_by", "rebased") if k in old_meta}
        meta = {"name": name, "breaks": prop, "verified": out,
                "what_i_ran": "in a scratch worktree at the recorded repo_head: demo on the clean tree (pass), `git apply patch.diff`, "
                              "`cargo test --workspace --offline` (pass), demo with the change (fail)",
                "needs": "see README.md", "checks": {}}
        meta.update(keep)
        json.dump(meta, open(os.path.join(dst, "meta.json"), "w"), indent=1)
    return ok


def run(name, checks):
    """With SEED_WORKTREE=<dir> the change is applied to that scratch worktree of /repo (brought to /repo's
    HEAD first) and the checks run with VERIF_REPO=<dir>: /repo itself is not touched."""
    dst = os.path.join(SEEDED, name)
    meta = json.load(open(os.path.join(dst, "meta.json")))
    # check_with: the change was asked for one property but is a violation of another one's statement
    checks = checks or meta.get("check_with") or [meta["breaks"]]
    tree = os.environ.get("SEED_WORKTREE", REPO)
    env = dict(os.environ)
    if tree != REPO:
        head = subprocess.check_output(["git", "-C", REPO, "rev-parse", "HEAD"]).decode().strip()
        sh(["git", "-C", tree, "checkout", "-q", "--detach", head])
        sh(["git", "-C", tree, "checkout", "--", "."])
        shutil.copy(os.path.join(REPO, "Cargo.lock"), os.path.join(tree, "Cargo.lock"))
        env["VERIF_REPO"] = tree
        env["VERIF_EVIDENCE"] = os.path.join(ROOT, "work", "seed-evidence")
    rc, log = sh(["git", "-C", tree, "status", "--porcelain", "--untracked-files=no"])
    if log.strip():
        print("refusing: %s has uncommitted changes:\n" % tree + log)
        return 2
    rc, log = sh(["git", "-C", tree, "apply", os.path.join(dst, "patch.diff")])
    if rc != 0:
        print("patch does not apply to HEAD:\n" + log)
        return 2
    try:
        for c in checks:
            t0 = time.time()
            rc, log = sh([os.path.join(ROOT, "check"), c, "--tier", "quick"], cwd=ROOT, timeout=7200, env=env)
            viol = [l for l in log.splitlines() if l.startswith("VIOLATION")]
            meta.setdefault("checks", {})[c] = {"exit": rc, "violations": len(viol), "first": viol[0][:400] if viol else None,
                                               "wall_s": round(time.time() - t0, 1)}
            print("%s on %s: exit %d, %d VIOLATION lines%s" % (c, name, rc, len(viol), (": " + viol[0][:260]) if viol else ""))
            if rc == 2:
                print(log[-1500:])
    finally:
        sh(["git", "-C", tree, "checkout", "--", "."])
        # regenerated automata caches may be left behind by a grammar change
        sh(["git", "-C", tree, "clean", "-fdq", "crates/core/automata"])
    json.dump(meta, open(os.path.join(dst, "meta.json"), "w"), indent=1)
    return 0


if __name__ == "__main__":
    if sys.argv[1] == "verify":
        wt = sys.argv[5] if len(sys.argv) > 5 else os.path.dirname(os.path.dirname(os.path.abspath(sys.argv[2].rstrip("/"))))
        sys.exit(0 if verify(sys.argv[2], sys.argv[3], sys.argv[4], wt) else 1)
    elif sys.argv[1] == "run":
        sys.exit(run(sys.argv[2], sys.argv[3:]))
    elif sys.argv[1] == "runall":
        # regression over every kept change: each against the check of the property it breaks
        rows = []
        for name in sorted(os.listdir(SEEDED)):
            if not os.path.exists(os.path.join(SEEDED, name, "meta.json")):
                continue
            run(name, [])
            meta = json.load(open(os.path.join(SEEDED, name, "meta.json")))
            res = meta["checks"].get((meta.get("check_with") or [meta["breaks"]])[0], {})
            rows.append((name, meta["breaks"], res.get("exit"), res.get("violations")))
        print("\n== summary")
        for r in rows:
            print("%-10s %-4s exit=%s violations=%s %s" % (r[0], r[1], r[2], r[3], "" if r[2] == 1 else "  <-- NOT DETECTED"))
